#!/usr/bin/env bash
# Runs every quick check against every seeded defect (cross-catch matrix) -> seeded/MATRIX.txt
HERE="$(cd "$(dirname "$0")/.." && pwd)"
OUT="$HERE/seeded/MATRIX.txt"; : > "$OUT"
for d in "$HERE"/seeded/C*-m*; do
  SEEDED_SLOT=matrix SEEDED_KEEP_TARGET=1 "$HERE/tools/run_seeded.sh" "$d" $(seq -f "C%02g" 1 20) 2>&1 | grep -a '^SEEDED' | awk '{print $2, $3, $4}' >> "$OUT"
done
rm -rf "$HERE/harness/target-$(echo /tmp/hf-seeded-eval-matrix | md5sum | cut -c1-8)"
echo done >> "$OUT"
