#!/usr/bin/env bash
# tools/process_round.sh <round-dir (/tmp/r6)> <ID> <tag (r6)>  - for each change a sub-agent left in <round-dir>/<ID>/out/mN:
# copy it to seeded/<ID>-<tag>mN/, confirm it (tools/verify_seed.sh: suite green with the change, demo fails with it and passes
# without it) and run the target property's quick check against it. One line per step in seeded/ROUND-<tag>.txt.
set -u
HERE="$(cd "$(dirname "$0")/.." && pwd)"
RD="$1"; ID="$2"; TAG="$3"
OUT="$HERE/seeded/ROUND-$TAG.txt"
for m in 1 2 3; do
  src="$RD/$ID/out/m$m"
  [ -f "$src/patch.diff" ] || { echo "$ID-${TAG}m$m MISSING" >> "$OUT"; continue; }
  dst="$HERE/seeded/$ID-${TAG}m$m"; mkdir -p "$dst"
  cp "$src/patch.diff" "$src/demo.rs" "$dst/" 2>/dev/null; cp "$src/notes.md" "$dst/" 2>/dev/null
  v=$(CARGO_TARGET_DIR_OVERRIDE=/tmp/hf-seed-verify-target-$ID "$HERE/tools/verify_seed.sh" "$dst" 2>&1 | tail -1)
  echo "$v" >> "$OUT"
  r=$(SEEDED_SLOT="$TAG-$ID" SEEDED_KEEP_TARGET=1 "$HERE/tools/run_seeded.sh" "$dst" "$ID" 2>&1 | tail -1)
  echo "$r" >> "$OUT"
done
rm -rf "/tmp/hf-seed-verify-target-$ID" "$HERE/harness/target-$(echo "/tmp/hf-seeded-eval-$TAG-$ID" | md5sum | cut -c1-8)"
echo "done $ID" >> "$OUT"
