#!/usr/bin/env bash
# tools/verify_seed.sh <dir with patch.diff + demo.rs>
# Confirms, in a scratch worktree of /repo: (1) patch applies and compiles, (2) the existing suite passes with it,
# (3) the demonstration fails with it, (4) the demonstration passes without it. Prints one summary line.
set -u
SD="$(cd "$1" && pwd)"
WT=/tmp/hf-seed-verify-$$
export CARGO_TARGET_DIR="${CARGO_TARGET_DIR_OVERRIDE:-/tmp/hf-seed-verify-target}"
git -C /repo worktree add -q --detach "$WT" HEAD || exit 2
trap 'git -C /repo worktree remove --force "$WT" >/dev/null 2>&1' EXIT
cd "$WT"
cp "$SD/demo.rs" tests/zz_seed_demo.rs
base=$(cargo test --offline --test zz_seed_demo 2>&1 | grep -a "^test result" | tail -1)
git apply "$SD/patch.diff" || { echo "VERIFY $(basename "$SD") patch-does-not-apply"; exit 1; }
withc=$(cargo test --offline --test zz_seed_demo 2>&1 | grep -a "^test result\|error\[" | tail -1)
rm tests/zz_seed_demo.rs
suite=$(cargo nextest run --workspace --no-fail-fast --offline 2>&1 | grep -a "Summary" | tail -1)
doc=$(cargo test --doc --offline 2>&1 | grep -a "^test result" | tail -1)
echo "VERIFY $SD | demo-without: $base | demo-with: $withc | suite-with: $suite | doctests-with: $doc"
