#!/usr/bin/env bash
# tools/recheck_refactors.sh [parallel=3] [out=refactors/RECHECK.txt]  - all twenty quick checks against every property-preserving
# refactor (false-alarm side). CHECKS="C02 C04" restricts the run to some checks. Expected: exit=0 on every line (refactors pinned to an older base report that base's fixed defects).
HERE="$(cd "$(dirname "$0")/.." && pwd)"; cd "$HERE"
PAR="${1:-3}"; OUT="${2:-refactors/RECHECK.txt}"; : > "$OUT"
ls -d refactors/*/ | xargs -P "$PAR" -I{} bash -c 'd={}; d=${d%/}; [ -f $d/patch.diff ] || exit 0; SEEDED_SLOT="rf-$(basename $d)" tools/run_seeded.sh $d ${CHECKS:-$(seq -f "C%02g" 1 20)} 2>&1 | grep "^SEEDED\|PATCH" | cut -c1-330 >> '"$OUT"
sort -o "$OUT" "$OUT"
echo "runs: $(wc -l < "$OUT")  exit=0: $(grep -c "exit=0" "$OUT")  alarms: $(grep -c "exit=1" "$OUT")  inconclusive: $(grep -c "exit=2" "$OUT")"
