#!/usr/bin/env python3
"""Regenerates /verif/MANIFEST.json from the table below (kept in sync with harness/src/props)."""
import json, os, subprocess
HERE = os.path.dirname(os.path.dirname(os.path.abspath(__file__)))
TECH = "runtime monitor: real API driven by boundary-lattice + stratified random workloads, every call recorded at the client boundary and judged by an independent executable reference model (i128 / closed-form calendar / IERS table); panics and arithmetic overflow observed through catch_unwind under overflow-checks; fourteen cold-start probes (fresh processes whose first library calls are the monitors on a zero-like anchor) per run for state that outlives a call; injected history for state that outlives a call: one epoch in 32 (one duration in 64) is preceded by unjudged calls on the value itself, its mirror image, a neighbour at one of sixteen distances or a sentinel next to a bound - read-only accessors, another leap-second table, two-operand calls with the epoch built just before; the committed corpus of a coverage-guided driver (libFuzzer feeding the workload's PRNG, same monitors) replayed in every run and searched live in the thorough tier, which also repeats the workload in a plain release build, under AddressSanitizer (string-facing properties), under valgrind memcheck (C06 C10 C11 C13 C19) and under Miri (C13); sampled event log re-decided offline by a second implementation of the oracle"
P = {
 "C01": ("M-DUR i128 model of + - neg abs *i64 /i64 and compound/Unit forms; all lattice pairs + random pairs", "3.C01"),
 "C02": ("canonical-form predicate and integer read-back model on every constructor/accessor", "3.C02"),
 "C03": ("total-order / equality oracle on pairs, triples and sorts", "3.C03"),
 "C04": ("M-DUR/M-SCALE model of Epoch +/- Duration, identities and cross-scale differences over all 81 scale pairs", "3.C04"),
 "C05": ("M-SCALE zero points derived from the stated civil reference dates; all 36 ordered pairs per sample", "3.C05"),
 "C06": ("M-LEAP: embedded IERS announcements cross-checked with the shipped list file and NAIF kernel; dense +-40 s lattice around all 28 entries, both directions, providers from files", "3.C06"),
 "C07": ("M-DYN closed forms in i128 + f64 periodic term; 30 ns / 20 ns / order tolerances of the statement", "3.C07"),
 "C08": ("M-CAL accept/reject partition and exact day count over enumerated calendar days, rejection lattice, leap-second days", "3.C08"),
 "C09": ("M-CAL civil-from-days fields, harness-built Display text, rebuild from printed fields, other-scale renderings", "3.C09"),
 "C11": ("integer div/mod decomposition, harness-built text, parse/serde round trips, unit spellings and offsets", "3.C11"),
 "C14": ("floor/ceil/round model on i128 counts (Duration and Epoch forms)", "3.C14"),
 "C16": ("civil weekday via M-SCALE + M-CAL; exhaustive Z/7 arithmetic; next/previous", "3.C16"),
 "C17": ("affine view model; float views decided exactly against the rational within 8 ulp", "3.C17"),
 "C18": ("M-FLOAT: exact rational comparison out, bit-exact trunc(IEEE product) in, Duration*f64 tolerance, logical step budget hook", "3.C18"),
 "C20": ("week/time-of-week, ns counters, day-of-year models", "3.C20"),
 "C10": ("harness-built ISO/RFC3339 texts with all offsets and fractional digit counts, Display/formatter/serde/RFC3339 round trips, JD/MJD/SEC numeric forms", "3.C10"),
 "C12": ("chronological order of M-SCALE instants over all 81 scale pairs, swap symmetry, conversion invariance, triples, sort", "3.C12"),
 "C13": ("grammar + mutation string workload over every parsing entry point; outcome must be value or Err; out-of-range lattice must be Err", "3.C13"),
 "C15": ("item-by-item model of TimeSeries iteration incl. count, termination and cross-scale spans", "3.C15"),
 "C19": ("harness renderer (M-TEXT) for random 1..16-token formats, offsets, constants; parse-back of the formatter's own output", "3.C19"),
}
IMPLEMENTED = sorted(P.keys())
ALL = ["C%02d" % i for i in range(1, 21)]
def hooks_commits():
    try:
        out = subprocess.check_output(["git", "-C", "/repo", "log", "--format=%H %s"], text=True)
        return [l.split()[0] for l in out.splitlines() if l.split(" ", 1)[1].startswith("verif-hooks")]
    except Exception:
        return []
m = {
 "version": 1,
 "setup_cmd": "./check --setup",
 "hooks": {
   "guard": "cargo feature `verif-hooks` (off by default)",
   "enable": "the harness crate depends on hifitime by path with features=[\"verif-hooks\"] (harness/Cargo.toml); ./check rebuilds it from /repo's working tree on every invocation",
   "baseline_off_cmd": "cd /repo && cargo nextest run --workspace --no-fail-fast --offline || cargo test --workspace --no-fail-fast --offline",
   "source_commits": hooks_commits(),
   "add_only": True,
 },
 "engines": [{"name": "hfverif", "path": "harness/", "serves_properties": IMPLEMENTED,
              "kind_free_text": "Rust harness: guarded-call recorder (catch_unwind, panic capture, logical step budget hook), reference models, workload generators, per-property monitors, evidence/replay writers"}],
 "checks": [],
 "notes": "Exit codes: 0 held (KNOWN-FINDING lines for listed open findings), 1 VIOLATION, 2 INCONCLUSIVE (never on the unchanged tree). Known findings: known_findings.json. See DESIGN.md.",
 "not_applicable": [],
}
for pid in ALL:
    if pid in P:
        text, ref = P[pid]
        m["checks"].append({
          "property_id": pid,
          "quick_cmd": f"./check {pid} quick",
          "thorough_cmd": f"./check {pid} thorough",
          "evidence_file": f"evidence/{pid}.json",
          "replay_cmd_template": f"./check {pid} --replay {{path}}",
          "engine": "hfverif",
          "level_claimed": {"category": "exploration",
                            "text": f"held on N recorded executions of the real API judged by an independent oracle ({text}); exhaustive over the finite sub-domains named in the evidence, sampled elsewhere; not a proof",
                            "design_ref": ref},
          "level_note": "trusted base: the reference model in harness/src/model (self-tested at start-up), rustc/std arithmetic, the statement's conventions; only executions actually produced are decided",
          "technique": TECH,
        })
    else:
        m["not_applicable"].append({"property_id": pid, "reason": "monitor not built yet in this round (planned: DESIGN.md section 3); no claim is made"})
json.dump(m, open(os.path.join(HERE, "MANIFEST.json"), "w"), indent=1)
print("wrote MANIFEST.json with", len(m["checks"]), "checks")
