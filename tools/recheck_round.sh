#!/usr/bin/env bash
# tools/recheck_round.sh <tag (r6)> [parallel=4]  - runs the target check of every kept seed of a round against the checks as they
# are now; one line per seed in seeded/RECHECK-<tag>.txt
HERE="$(cd "$(dirname "$0")/.." && pwd)"; cd "$HERE"
TAG="$1"; PAR="${2:-4}"
OUT="seeded/RECHECK-$TAG.txt"; : > "$OUT"
ls -d seeded/C??-${TAG}m? | xargs -P "$PAR" -I{} bash -c 'd={}; id=$(basename $d | cut -c1-3); SEEDED_SLOT="rc-$(basename $d)" tools/run_seeded.sh $d $id 2>&1 | tail -1 | cut -c1-300 >> '"$OUT"
sort -o "$OUT" "$OUT"
echo "caught: $(grep -c "exit=1" "$OUT") of $(wc -l < "$OUT")"
