#!/usr/bin/env bash
# tools/fuzz_corpus.sh <seconds per property> [ID...]   - (re)generates the committed corpus of the coverage-guided driver:
# searches each property for <seconds> on the repository the harness is linked to (default /repo, which must be the unchanged
# tree: an input that an oracle rejects there is a defect of hifitime or of my machinery and stops the script), minimises
# what libFuzzer kept (-merge=1: one input per covered feature) and packs it into corpus/<ID>.bin.
set -u
HERE="$(cd "$(dirname "$0")/.." && pwd)"; cd "$HERE"
SECS="$1"; shift
[ $# -eq 0 ] && set -- $(seq -f "C%02g" 1 20)
TGT="$HERE/harness/target"; W="$HERE/harness/target/corpus-work"; mkdir -p "$W" corpus
ln -sfn "${VERIF_REPO:-/repo}" harness/repo-link
for ID in "$@"; do
  AUX="$W/$ID"; rm -rf "$AUX"; mkdir -p "$AUX"
  out=$(tools/fuzz_prop.sh "$ID" "$SECS" "$TGT" "$AUX" 1 2>&1); rc=$?
  echo "$out" | cut -c1-300
  if [ $rc -eq 1 ]; then echo "STOP: the driver found an input an oracle rejects on this tree (see $AUX/fuzz-artifacts)"; exit 1; fi
  [ $rc -ne 0 ] && { echo "skip $ID (driver could not run)"; continue; }
  mkdir -p "$AUX/min"
  VERIF_FUZZ_PROP="$ID" VERIF_DIR="$HERE" "$TGT-fuzz/x86_64-unknown-linux-gnu/release/oracles" -merge=1 -max_len=512 -timeout=20 "$AUX/min" "$AUX/fuzz-corpus" >"$AUX/merge.out" 2>&1
  python3 tools/corpus.py pack "$AUX/min" "corpus/$ID.bin"
done
