#!/usr/bin/env bash
# tools/fuzz_seeded.sh <seeded-dir> <ID> <seconds>   - development aid: runs ONLY the coverage-guided driver of <ID> against a
# scratch worktree of /repo with the seeded patch applied (starting from the committed corpus), to measure what the
# driver finds on its own. Scratch worktree and build output under /tmp, removed afterwards.
set -u
HERE="$(cd "$(dirname "$0")/.." && pwd)"
SD="$(cd "$1" && pwd)"; ID="$2"; SECS="${3:-60}"
SLOT="${SEEDED_SLOT:-$$}"
WT=/tmp/hf-fuzzseed-$SLOT; W=/tmp/hf-fuzzseed-work-$SLOT
git -C /repo worktree remove --force "$WT" >/dev/null 2>&1; rm -rf "$W"
base=HEAD; [ -f "$SD/base" ] && base="$(cat "$SD/base")"
git -C /repo worktree add -q --detach "$WT" "$base" || exit 2
trap 'git -C /repo worktree remove --force "$WT" >/dev/null 2>&1; [ "${SEEDED_KEEP_TARGET:-0}" = 1 ] || rm -rf "$W"' EXIT
git -C "$WT" apply "$SD/patch.diff" || { echo "PATCH-DOES-NOT-APPLY $SD"; exit 2; }
mkdir -p "$W/harness"
rsync -a --delete --exclude 'target*' --exclude 'repo-link' --exclude 'fuzz/target' "$HERE/harness/" "$W/harness/"
ln -sfn "$WT" "$W/harness/repo-link"
export VERIF_HARNESS_DIR="$W/harness" VERIF_REPO="$WT"
rm -rf "$W/aux"
out=$("$HERE/tools/fuzz_prop.sh" "$ID" "$SECS" "$W/target" "$W/aux" "${VERIF_SEED:-1}" 2>&1); rc=$?
echo "FUZZ-SEEDED $(basename "$SD") check=$ID exit=$rc $(echo "$out" | tr '\n' '|' | cut -c1-600)"
