#!/usr/bin/env python3
"""tools/mutants.py <repo> [--sample N --seed S]  - lists first-order mutants of the property-relevant hifitime sources.

One mutant per output line: <id>\t<file>\t<line>\t<col>\t<original>\t<replacement>
Operators: relational / arithmetic / logical operator replacement, small integer constant +-1, `!` deletion, min<->max,
floor<->ceil, div_euclid / rem_euclid -> plain, saturating_* -> wrapping_*, checked comparison boundary constants.
Comment lines, doc comments, attribute lines, `#[cfg(test)]` modules, kani / python / ut1 files are skipped.
"""
import re, sys, random, os

FILES = [
    "src/duration/mod.rs", "src/duration/ops.rs", "src/duration/parse.rs", "src/duration/std.rs",
    "src/epoch/mod.rs", "src/epoch/ops.rs", "src/epoch/gregorian.rs", "src/epoch/initializers.rs", "src/epoch/formatting.rs",
    "src/epoch/leap_seconds.rs", "src/epoch/leap_seconds_file.rs", "src/epoch/with_funcs.rs",
    "src/timescale/mod.rs", "src/timescale/fmt.rs", "src/timeunits.rs", "src/weekday.rs", "src/month.rs", "src/timeseries.rs",
    "src/efmt/format.rs", "src/efmt/formatter.rs", "src/parser.rs",
]

OPS = [
    (r"(?<![<>=!\-+*/&|])<=(?![=>])", ["<"]),
    (r"(?<![<>=!\-+*/&|<])<(?![=<])", ["<="]),
    (r"(?<![<>=!\-+*/&|])>=(?![=])", [">"]),
    (r"(?<![<>=!\-+*/&|>\-=])>(?![=>])", [">="]),
    (r"(?<![<>=!])==(?!=)", ["!="]),
    (r"!=", ["=="]),
    (r"&&", ["||"]),
    (r"\|\|", ["&&"]),
    (r"(?<![+\-*/=<>!&|(,\s])\s\+\s(?!=)", [" - "]),
    (r"(?<![+\-*/=<>!&|(,])\s-\s(?![=>])", [" + "]),
    (r"\s\*\s(?!=)", [" / "]),
    (r"\s%\s", [" / "]),
    (r"\.div_euclid\(", [".wrapping_div("]),
    (r"\.rem_euclid\(", [".wrapping_rem("]),
    (r"\.saturating_add\(", [".wrapping_add("]),
    (r"\.saturating_sub\(", [".wrapping_sub("]),
    (r"\.saturating_mul\(", [".wrapping_mul("]),
    (r"\.floor\(\)", [".ceil()"]),
    (r"\.ceil\(\)", [".floor()"]),
    (r"\.min\(", [".max("]),
    (r"\.max\(", [".min("]),
    (r"\.abs\(\)", [""]),
    (r"(?<![\w.])!(?=[\w(])", [""]),
]
CONST = re.compile(r"(?<![\w.])(\d{1,4})(?![\w.]|_)")


def code_part(line):
    # strip a trailing // comment (not inside a string - good enough for this code base)
    i = line.find("//")
    return line if i < 0 else line[:i]


def main():
    repo = sys.argv[1]
    sample, seed = None, 1
    if "--sample" in sys.argv:
        sample = int(sys.argv[sys.argv.index("--sample") + 1])
    if "--seed" in sys.argv:
        seed = int(sys.argv[sys.argv.index("--seed") + 1])
    out = []
    for f in FILES:
        p = os.path.join(repo, f)
        if not os.path.exists(p):
            continue
        lines = open(p).read().split("\n")
        in_test = False
        for ln, line in enumerate(lines, 1):
            st = line.strip()
            if st.startswith("#[cfg(test)]") and ln < len(lines) and lines[ln].strip().startswith("mod "):
                in_test = True  # the unit-test module at the end of a file is skipped
            if in_test or st.startswith("//") or st.startswith("*") or st.startswith("/*") or st.startswith("#[") or st.startswith("use ") or st.startswith("assert") or st.startswith("debug_assert"):
                continue
            if "verif_hooks" in line or "cfg(feature" in line:
                continue
            code = code_part(line)
            if '"' in code:
                # leave string literals alone: mutate only before the first quote
                code = code[: code.find('"')]
            for pat, reps in OPS:
                for m in re.finditer(pat, code):
                    for r in reps:
                        out.append((f, ln, m.start(), m.group(0), r))
            for m in CONST.finditer(code):
                v = int(m.group(1))
                for r in ([v + 1, v - 1] if v > 0 else [1]):
                    out.append((f, ln, m.start(), m.group(0), str(r)))
    rnd = random.Random(seed)
    if sample is not None and sample < len(out):
        out = rnd.sample(out, sample)
    out.sort()
    for i, (f, ln, col, a, b) in enumerate(out):
        print(f"M{i:04d}\t{f}\t{ln}\t{col}\t{a}\t{b}")


if __name__ == "__main__":
    main()
