#!/usr/bin/env python3
"""Second opinion over the recorded event log of one check (logs/<ID>.jsonl).

Every logged event carries the arguments of a real API call and the value the Rust reference model expected.
This checker recomputes the expectation with an independent implementation (unbounded Python ints, fractions,
datetime.date ordinals inside years 1..9999, 60-digit decimal series for the two sine formulas, its own copy of
the IERS announcements parsed from the shipped list file) and compares the two ORACLES. A disagreement means my
machinery is wrong, not hifitime: it is printed as ORACLE-DISAGREEMENT and the run is INCONCLUSIVE (exit 2).
Usage: offline_check.py <ID> [--repo /repo]      (stdlib only)
"""
import sys, os, json, datetime, struct
from fractions import Fraction
from decimal import Decimal, getcontext

getcontext().prec = 60
HERE = os.path.dirname(os.path.dirname(os.path.abspath(__file__)))
NPC = 36525 * 86400 * 10**9
MIN_NS, MAX_NS = -32768 * NPC, 32768 * NPC
NS_D, NS_S = 86400 * 10**9, 10**9


def clamp(v):
    return max(MIN_NS, min(MAX_NS, v))


def cnt(p):
    return p[0] * NPC + p[1]


def trunc_div(a, b):
    q = abs(a) // abs(b)
    return q if (a < 0) == (b < 0) else -q


def f64_from_bits(b):
    return struct.unpack(">d", struct.pack(">Q", int(b)))[0]


def frac_of_bits(b):
    x = f64_from_bits(b)
    return Fraction(x)  # exact


# ------------------------------------------------------------------ calendar via datetime (years 1..9999)
def days_from_1900(y, m, d):
    return datetime.date(y, m, d).toordinal() - datetime.date(1900, 1, 1).toordinal()


GREG_ZERO = {}
ZERO_TAI = {}


def init_scales():
    for s in ("TAI", "TT", "UTC"):
        GREG_ZERO[s] = 0
    GREG_ZERO["ET"] = GREG_ZERO["TDB"] = days_from_1900(2000, 1, 1) * NS_D + NS_D // 2
    GREG_ZERO["GPST"] = GREG_ZERO["QZSST"] = days_from_1900(1980, 1, 6) * NS_D
    GREG_ZERO["GST"] = days_from_1900(1999, 8, 22) * NS_D
    GREG_ZERO["BDT"] = days_from_1900(2006, 1, 1) * NS_D
    ZERO_TAI["TAI"] = 0
    ZERO_TAI["TT"] = -32_184_000_000
    ZERO_TAI["GPST"] = ZERO_TAI["QZSST"] = GREG_ZERO["GPST"] + 19 * NS_S
    ZERO_TAI["GST"] = GREG_ZERO["GST"] + 19 * NS_S
    ZERO_TAI["BDT"] = GREG_ZERO["BDT"] + 33 * NS_S


def load_leap(repo):
    tab = []
    for line in open(os.path.join(repo, "data", "leap-seconds.list")):
        line = line.strip()
        if not line or line.startswith("#"):
            continue
        a = line.split()
        tab.append((int(a[0]), int(a[1])))
    return tab


# ------------------------------------------------------------------ high precision sine
def dsin(x):
    x = Decimal(x)
    twopi = Decimal("6.283185307179586476925286766559005768394338798750211641949889")
    x = x % twopi
    if x > twopi / 2:
        x -= twopi
    term, s, n = x, x, 1
    while abs(term) > Decimal(10) ** -55:
        term = -term * x * x / ((2 * n) * (2 * n + 1))
        s += term
        n += 1
    return s


J2000 = None
PI = Decimal("3.141592653589793238462643383279502884197169399375105820974944")


def et_delta_ns(t_s):  # periodic part, t in seconds past J2000 (Decimal)
    m = Decimal("6.239996") + Decimal("1.99096871e-7") * t_s
    e = m + Decimal("1.671e-2") * dsin(m)
    return Decimal("1.657e-3") * dsin(e) * 10**9


def tdb_delta_ns(t_s):
    g = Decimal("357.528") * PI / 180 + Decimal("1.990910018065731e-7") * t_s
    return Decimal("0.001658") * dsin(g + Decimal("0.0167") * dsin(g)) * 10**9


def dyn_from_tai(t, dy):
    base = Decimal(t - J2000 + 32_184_000_000)
    r = base
    f = et_delta_ns if dy == "ET" else tdb_delta_ns
    for _ in range(4):
        r = base + f(r / 10**9)
    return r


def tai_from_dyn(r, dy):
    f = et_delta_ns if dy == "ET" else tdb_delta_ns
    return Decimal(J2000 + r - 32_184_000_000) - f(Decimal(r) / 10**9)


# ------------------------------------------------------------------ per-op second opinions: return (ok, mine)
def check(ev, ctx):
    op = ev["op"]
    if op in ("add", "sub"):
        a, b = cnt(ev["a"]), cnt(ev["b"])
        mine = clamp(a + b if op == "add" else a - b)
        return mine == int(ev["want"]), mine
    if op == "neg":
        mine = clamp(-cnt(ev["a"]))
        return mine == int(ev["want"]), mine
    if op == "mul":
        mine = clamp(cnt(ev["a"]) * int(ev["q"]))
        return mine == int(ev["want"]), mine
    if op == "div":
        mine = clamp(trunc_div(cnt(ev["a"]), int(ev["q"])))
        return mine == int(ev["want"]), mine
    if op == "from_parts":
        mine = clamp(ev["c"] * NPC + ev["ns"])
        return mine == int(ev["want"]), mine
    if op == "from_total":
        mine = clamp(int(ev["v"]))
        return mine == int(ev["want"]), mine
    if op == "unit":
        mine = clamp(int(ev["n"]) * int(ev["unit_ns"]))
        return mine == int(ev["want"]), mine
    if op == "compose":
        w = [NS_D, 3600 * NS_S, 60 * NS_S, NS_S, 10**6, 10**3, 1]
        tot = sum(x * y for x, y in zip(ev["f"], w))
        mine = clamp(-tot if ev["sign"] < 0 else tot)
        return mine == int(ev["want"]), mine
    if op == "cmp":
        a, b = cnt(ev["a"]), cnt(ev["b"])
        mine = (a > b) - (a < b)
        return mine == ev["want"], mine
    if op == "frc":
        d, s = int(ev["d"]), int(ev["s"])
        if s == 0:
            return int(ev["fl"]) == 0 and int(ev["ce"][0]) == 0, 0
        a = abs(s)
        fl = (d // a) * a  # python floor division == floor for a > 0
        ce = fl + a
        rd = fl if 2 * (d - fl) < a else ce
        ok = clamp(fl) == int(ev["fl"]) and clamp(ce) == int(ev["ce"][0]) and clamp(rd) == int(ev["rd"][0])
        return ok, (clamp(fl), clamp(ce), clamp(rd))
    if op == "conv":
        mine = int(ev["d"]) + ZERO_TAI[ev["s1"]] - ZERO_TAI[ev["s2"]]
        return mine == int(ev["want"]), mine
    if op == "utc2tai":
        u = int(ev["u"])
        off = 0
        for ts, o in ctx["leap"]:
            if ts * NS_S <= u:
                off = o
        mine = u + off * NS_S
        return mine == int(ev["want"]), mine
    if op in ("ecmp", "ediff", "views"):
        def tai_of(c, sc):
            if sc == "UTC":
                off = 0
                for ts, o in ctx["leap"]:
                    if ts * NS_S <= c:
                        off = o
                return c + off * NS_S
            return c + ZERO_TAI[sc]

        def from_tai(t, sc):
            # the reading of TAI instant t in a uniform scale or in UTC (None inside an inserted second: no UTC reading)
            if sc != "UTC":
                return t - ZERO_TAI[sc]
            for o in sorted({0} | {o for _, o in ctx["leap"]}):
                u = t - o * NS_S
                if tai_of(u, "UTC") == t:
                    return u
            return None

        if op == "ecmp":
            a, b = tai_of(int(ev["a"]), ev["sa"]), tai_of(int(ev["b"]), ev["sb"])
            if ev["sa"] == ev["sb"]:
                a, b = int(ev["a"]), int(ev["b"])
            mine = (a > b) - (a < b)
            return mine == ev["want"], mine
        if op == "ediff":
            e_in_f = int(ev["e"]) if ev["sf"] == ev["se"] else from_tai(tai_of(int(ev["e"]), ev["se"]), ev["sf"])
            if e_in_f is None:
                return False, "no UTC reading"
            mine = int(ev["f"]) - e_in_f
            return mine == int(ev["want"]), mine
        c, sc = int(ev["c"]), ev["s"]
        t = tai_of(c, sc)
        u = c if sc == "UTC" else from_tai(t, "UTC")
        tt = t + 32_184_000_000
        day = NS_D
        mine = {"tai": str(t), "utc": "none" if u is None else str(u), "jde_tai": str(t + 15020 * day + 2400000 * day + day // 2),
                "mjd_tt": str(tt + 15020 * day), "tt_j2k": str(tt - 3155716800 * NS_S), "unix": "none" if u is None else str(u - 2208988800 * NS_S)}
        return all(mine[k] == ev[k] for k in mine), mine
    if op == "todyn":
        mine = dyn_from_tai(int(ev["t"]), ev["dy"])
        return abs(mine - int(ev["want"])) <= 2, int(mine)
    if op == "fromdyn":
        mine = tai_from_dyn(int(ev["r"]), ev["dy"])
        return abs(mine - int(ev["want_tai"])) <= 2, int(mine)
    if op == "greg":
        y, m, d, h, mi, s, ns = ev["f"]
        if not (1 <= y <= 9999):
            return True, "skipped(year outside datetime range)"
        try:
            datetime.date(y, m, d)
            valid_date = True
        except ValueError:
            valid_date = False
        if not valid_date or h > 24 or mi > 59 or s > 60 or ns > 10**9:
            mine = "Reject"
        elif s == 60:
            # second = 60 "at any other time of day" or on another date is an error, whatever the hour / nanosecond class
            nxt = (days_from_1900(y, m, d) + 1) * 86400
            entries = [ts for ts, _ in ctx["leap"]]
            if (y, m, d) == (1971, 12, 31):
                mine = "DontCare"
            elif nxt not in entries[1:] or not (h == 23 and mi == 59):
                mine = "Reject"
            elif ns == 10**9:
                mine = "DontCare"
            else:
                mine = "Accept"
        elif h == 24 or ns == 10**9:
            mine = "DontCare"
        else:
            mine = "Accept"
        ok = mine == ev["want"]
        if ok and mine == "Accept" and s < 60:
            c = days_from_1900(y, m, d) * NS_D + h * 3600 * NS_S + mi * 60 * NS_S + s * NS_S + ns - GREG_ZERO[ev["scale"]]
            ok = c == int(ev["count"])
            mine = (mine, c)
        return ok, mine
    if op == "fields":
        c = int(ev["c"]) + GREG_ZERO[ev["scale"]]
        days, tod = divmod(c, NS_D)
        o = days + datetime.date(1900, 1, 1).toordinal()
        if not (1 <= o <= datetime.date.max.toordinal()):
            return True, "skipped(year outside datetime range)"
        dt = datetime.date.fromordinal(o)
        h, r = divmod(tod, 3600 * NS_S)
        mi, r = divmod(r, 60 * NS_S)
        s, ns = divmod(r, NS_S)
        txt = "%04d-%02d-%02dT%02d:%02d:%02d" % (dt.year, dt.month, dt.day, h, mi, s)
        if ns:
            txt += ".%09d" % ns
        txt += " " + ev["scale"]
        return txt == ev["want"], txt
    if op == "wd":
        t = int(ev["t"])
        o = t // NS_D + datetime.date(1900, 1, 1).toordinal()
        if not (1 <= o <= datetime.date.max.toordinal()):
            return True, "skipped"
        mine = datetime.date.fromordinal(o).weekday()  # Monday = 0
        return mine == ev["want"], mine
    if op == "in":
        if ev["want"] == "any":
            return True, "nan"
        x = f64_from_bits(ev["bits"])
        f = float(int(ev["unit_ns"]))
        p = x * f  # one IEEE multiplication, same as the statement
        if p != p:
            return True, "nan"
        if p in (float("inf"), float("-inf")):
            mine = MAX_NS if p > 0 else MIN_NS
        else:
            fr = Fraction(p)
            mine = clamp(int(fr))  # int() truncates toward zero
        return mine == int(ev["want"]), mine
    if op == "out":
        c = int(ev["c"])
        x = frac_of_bits(ev["bits"])
        exact = Fraction(c, NS_S)
        ref = max(abs(exact), 1)
        # ulp of the double nearest to ref
        import math
        fl = float(ref)
        ulp = Fraction(math.ulp(fl))
        ok_mine = abs(x - exact) <= 8 * ulp
        return ok_mine == ev["judged_ok"], ok_mine
    if op == "tow":
        mine = ev["week"] * 7 * NS_D + ev["ns"]
        return mine == int(ev["want"]), mine
    return None, None


def main():
    pid = sys.argv[1]
    repo = "/repo"
    if "--repo" in sys.argv:
        repo = sys.argv[sys.argv.index("--repo") + 1]
    path = os.path.join(HERE, "logs", pid + ".jsonl")
    if not os.path.exists(path):
        print("SECOND-OPINION property=%s no event log for this property (nothing to re-decide)" % pid)
        return 0
    global J2000
    init_scales()
    J2000 = GREG_ZERO["ET"]
    ctx = {"leap": load_leap(repo)}
    n = agree = skipped = 0
    per_op = {}
    bad = []
    for line in open(path, encoding="utf-8"):
        line = line.strip()
        if not line:
            continue
        ev = json.loads(line)
        ok, mine = check(ev, ctx)
        if ok is None:
            skipped += 1
            continue
        n += 1
        per_op[ev["op"]] = per_op.get(ev["op"], 0) + 1
        if ok:
            agree += 1
        elif len(bad) < 10:
            bad.append((ev, mine))
    for ev, mine in bad:
        print("ORACLE-DISAGREEMENT property=%s event=%s python=%s" % (pid, json.dumps(ev)[:300], str(mine)[:120]))
    print("SECOND-OPINION property=%s events=%d agree=%d disagree=%d unknown_ops=%d per_op=%s" % (pid, n, agree, n - agree, skipped, json.dumps(per_op)))
    # fold into the evidence
    evp = os.path.join(HERE, "evidence", pid + ".json")
    if os.path.exists(evp):
        try:
            e = json.load(open(evp))
            e["coverage"]["second_opinion"] = {"checker": "tools/offline_check.py (independent Python re-computation of the expected values over the sampled event log)", "events": n, "agree": agree, "disagree": n - agree, "per_op": per_op}
            json.dump(e, open(evp, "w"), indent=2)
        except Exception as ex:
            print("note: could not update evidence:", ex)
    return 0 if n == agree else 2


if __name__ == "__main__":
    sys.exit(main())
