#!/usr/bin/env bash
# tools/fuzz_prop.sh <ID> <seconds> <cargo target dir of the deciding build> <aux dir> [seed]
# Coverage-guided driver for one property (harness/fuzz/fuzz_targets/oracles.rs): builds the libFuzzer target against the
# repository the harness is linked to, unpacks the committed corpus of the property as the starting point, and searches for
# <seconds> with 16 forked workers. Prints one "[fuzz] ..." summary line. Exit 0 nothing found, 1 an oracle rejected an
# outcome (artifacts copied to <aux dir>/fuzz-artifacts, first lines of the oracle's report printed), 3 could not build / run.
set -u
ID="$1"; SECS="$2"; TGT="$3"; AUX="$4"; SEED="${5:-1}"
HERE="$(cd "$(dirname "$0")/.." && pwd)"
H="${VERIF_HARNESS_DIR:-$HERE/harness}"
FZ="$H/fuzz"
export CARGO_NET_OFFLINE=true
mkdir -p "$AUX/fuzz-artifacts" "$AUX/fuzz-corpus"
type ensure_fresh >/dev/null 2>&1 && ensure_fresh "$TGT-fuzz"
if ! (cd "$FZ" && CARGO_TARGET_DIR="$TGT-fuzz" cargo +nightly fuzz build --fuzz-dir . oracles >"$AUX/build-fuzz-oracles.log" 2>&1); then
  echo "[fuzz] AUX-INCONCLUSIVE build failed (see $AUX/build-fuzz-oracles.log)"; exit 3
fi
BIN="$TGT-fuzz/x86_64-unknown-linux-gnu/release/oracles"
python3 "$HERE/tools/corpus.py" unpack "$HERE/corpus/$ID.bin" "$AUX/fuzz-corpus" >/dev/null 2>&1
export VERIF_FUZZ_PROP="$ID" VERIF_DIR="$HERE"
(cd "$AUX" && timeout $((SECS + 120)) "$BIN" "$AUX/fuzz-corpus" -fork=16 -timeout=20 -rss_limit_mb=4096 -max_len=512 -use_value_profile=1 \
    -max_total_time="$SECS" -artifact_prefix="$AUX/fuzz-artifacts/" -seed="$SEED" -print_final_stats=0 >"$AUX/fuzz-oracles.out" 2>&1)
last=$(grep -a 'cov:' "$AUX/fuzz-oracles.out" | tail -1 | sed 's/^#//' | cut -c1-110)
ncr=$(ls "$AUX/fuzz-artifacts" 2>/dev/null | grep -c 'crash-\|timeout-\|oom-')
ncorp=$(ls "$AUX/fuzz-corpus" 2>/dev/null | wc -l)
echo "[fuzz] property=$ID seconds=$SECS corpus_files=$ncorp artifacts=$ncr last: $last"
if [ "$ncr" -gt 0 ]; then
  grep -a 'ORACLE-VIOLATION\|panicked at' "$AUX/fuzz-oracles.out" | sort | uniq -c | sort -rn | head -5 | cut -c1-400
  exit 1
fi
grep -a -q 'cov:' "$AUX/fuzz-oracles.out" || { echo "[fuzz] AUX-INCONCLUSIVE the driver did not run (see $AUX/fuzz-oracles.out)"; exit 3; }
exit 0
