#!/usr/bin/env bash
# tools/run_seeded.sh <seeded-dir> [ID...]
# Applies <seeded-dir>/patch.diff to a scratch worktree of /repo (outside /repo and /verif), runs the
# quick check of the listed properties (default: the property named in meta.json, else all twenty)
# against it through VERIF_REPO, prints one line per check, and removes the worktree again.
# Evidence of these runs goes to evidence/_seeded-*.json (git-ignored), never to the registered files.
set -u
HERE="$(cd "$(dirname "$0")/.." && pwd)"
SD="$(cd "$1" && pwd)"; shift
# SEEDED_SLOT (default: pid) names the scratch worktree; with SEEDED_KEEP_TARGET=1 the per-slot build output is kept
# between invocations (faster sweeps; the caller removes harness/target-* afterwards).
WT=/tmp/hf-seeded-eval-${SEEDED_SLOT:-$$}
git -C /repo worktree remove --force "$WT" >/dev/null 2>&1
# a directory may pin the /repo commit its patch was written against (file `base`): later fix commits touched the same lines
[ -z "${SEEDED_BASE:-}" ] && [ -f "$SD/base" ] && SEEDED_BASE="$(cat "$SD/base")"
git -C /repo worktree add -q --detach "$WT" "${SEEDED_BASE:-HEAD}" || exit 2
trap 'git -C /repo worktree remove --force "$WT" >/dev/null 2>&1; [ "${SEEDED_KEEP_TARGET:-0}" = 1 ] || rm -rf "$HERE/harness/target-$(echo "$WT" | md5sum | cut -c1-8)"' EXIT
if ! git -C "$WT" apply "$SD/patch.diff"; then echo "PATCH-DOES-NOT-APPLY $SD"; exit 2; fi
if [ $# -eq 0 ]; then
  if [ -f "$SD/meta.json" ]; then set -- $(python3 -c "import json,sys;print(' '.join(json.load(open('$SD/meta.json')).get('run_checks',[json.load(open('$SD/meta.json'))['property']])))"); else set -- $(seq -f "C%02g" 1 20); fi
fi
for id in "$@"; do
  out=$(VERIF_REPO="$WT" VERIF_EVIDENCE_NAME="_seeded-$id.json" "$HERE/check" "$id" "${SEEDED_TIER:-quick}" 2>&1)
  rc=$?
  nv=$(echo "$out" | grep -a -c '^VIOLATION')
  sig=$(echo "$out" | grep -a '^  \[' | head -3 | cut -c1-220 | tr '\n' '|')
  echo "SEEDED $(basename "$(dirname "$SD")")/$(basename "$SD") check=$id exit=$rc violations_lines=$nv $sig"
done
