#!/usr/bin/env bash
# tools/run_all.sh [quick|thorough]  - runs every registered check once and prints one line per property
HERE="$(cd "$(dirname "$0")/.." && pwd)"; cd "$HERE"
tier="${1:-quick}"; bad=0
for i in $(seq -w 1 20); do
  out=$(./check "C$i" "$tier" 2>&1); rc=$?
  echo "$out" | grep -a '^OK\|^FAIL\|^INCONCLUSIVE\|^SECOND-OPINION\|^VIOLATION\|^\[' | cut -c1-220
  [ $rc -ne 0 ] && bad=1
done
exit $bad
