#!/usr/bin/env python3
"""Adds what the auxiliary flavours (plain / ASan / Miri) observed to evidence/<ID>.json (thorough tier)."""
import json, os, sys, glob
pid, aux = sys.argv[1], sys.argv[2]
here = os.path.dirname(os.path.dirname(os.path.abspath(__file__)))
evp = os.path.join(here, "evidence", f"{pid}.json")
ev = json.load(open(evp))
runs = []
tot_viol = 0
for f in sorted(glob.glob(os.path.join(here, "evidence", f"_aux-*-{pid}.json")) + (glob.glob(os.path.join(here, "evidence", "_aux-miri-[0-9]*.json")) if pid == "C13" else [])):
    try:
        a = json.load(open(f))
    except Exception as e:
        runs.append({"file": os.path.basename(f), "error": str(e)}); continue
    c = a["coverage"]
    runs.append({"flavour": c.get("flavour"), "evaluations": c.get("evaluations"), "distinct_nontrivial": c.get("distinct_nontrivial"),
                 "panics_caught": c.get("panics_caught"), "violations": a.get("violations"), "wall_s": a.get("wall_s"),
                 "known_findings_matched": [k["id"] for k in c.get("known_findings_matched", [])]})
    tot_viol += a.get("violations") or 0
    os.remove(f)
summary = open(os.path.join(aux, "summary.txt")).read().splitlines() if os.path.exists(os.path.join(aux, "summary.txt")) else []
ev["coverage"]["aux_runs"] = runs
ev["coverage"]["aux_summary"] = summary
ev["coverage"]["aux_evaluations_total"] = sum((r.get("evaluations") or 0) for r in runs)
ev["violations"] = (ev.get("violations") or 0) + tot_viol
json.dump(ev, open(evp, "w"), indent=2)
