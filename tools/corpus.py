#!/usr/bin/env python3
"""tools/corpus.py pack <dir> <file.bin> | unpack <file.bin> <dir> | stats <file.bin>
Packed corpus of the coverage-guided driver: repeated (u32 little-endian length, bytes), entries sorted by content so that the
file is reproducible. Entries longer than 512 bytes are dropped (the driver runs with -max_len=512)."""
import os, struct, sys, hashlib

def pack(d, f):
    ents = set()
    for n in os.listdir(d):
        p = os.path.join(d, n)
        if os.path.isfile(p):
            b = open(p, "rb").read()
            if 0 < len(b) <= 512:
                ents.add(b)
    with open(f, "wb") as o:
        for b in sorted(ents):
            o.write(struct.pack("<I", len(b)) + b)
    print(f"packed {len(ents)} entries into {f}")

def entries(f):
    b = open(f, "rb").read() if os.path.exists(f) else b""
    i = 0
    while i + 4 <= len(b):
        (n,) = struct.unpack_from("<I", b, i)
        i += 4
        yield b[i:i + n]
        i += n

def unpack(f, d):
    os.makedirs(d, exist_ok=True)
    k = 0
    for e in entries(f):
        open(os.path.join(d, hashlib.sha1(e).hexdigest()), "wb").write(e)
        k += 1
    print(f"unpacked {k} entries into {d}")

if __name__ == "__main__":
    if sys.argv[1] == "pack":
        pack(sys.argv[2], sys.argv[3])
    elif sys.argv[1] == "unpack":
        unpack(sys.argv[2], sys.argv[3])
    else:
        es = list(entries(sys.argv[2]))
        print(len(es), "entries,", sum(map(len, es)), "bytes")
