#!/usr/bin/env bash
# tools/recheck_all.sh [parallel=6] [out=seeded/RECHECK-all.txt]  - target check of every kept seed against the checks as they are now
HERE="$(cd "$(dirname "$0")/.." && pwd)"; cd "$HERE"
PAR="${1:-6}"; OUT="${2:-seeded/RECHECK-all.txt}"; : > "$OUT"
ls -d seeded/C??-* | xargs -P "$PAR" -I{} bash -c 'd={}; id=$(basename $d | cut -c1-3); SEEDED_SLOT="ra-$(basename $d)" tools/run_seeded.sh $d 2>&1 | tail -1 | cut -c1-260 >> '"$OUT"
sort -o "$OUT" "$OUT"
echo "caught: $(grep -c "exit=1" "$OUT") of $(wc -l < "$OUT")"
