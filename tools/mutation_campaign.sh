#!/usr/bin/env bash
# tools/mutation_campaign.sh <slot> <mutants.tsv> <out.tsv>
# For every listed first-order mutant of /repo (tools/mutants.py): apply it in a scratch worktree, run the repository's own
# suite (nextest + doctests); a mutant that compiles and passes it is a SURVIVOR of the existing tests, and the twenty quick
# checks are run against it (most relevant first, stopping at the first VIOLATION). One result line per mutant:
#   <id> <file:line:col> <orig> -> <repl> | STILLBORN | SUITE-KILLED | CAUGHT <check> <signature> | HANG <check> | MISSED
set -u
HERE="$(cd "$(dirname "$0")/.." && pwd)"
slot=$1; list=$2; out=$3
WT=/tmp/hf-mut-$slot
export CARGO_TARGET_DIR=/tmp/hf-mut-target-$slot
git -C /repo worktree remove --force "$WT" >/dev/null 2>&1
git -C /repo worktree add -q --detach "$WT" HEAD || exit 2
order_for() {
  case "$1" in
    src/duration/*) echo C01 C02 C03 C11 C14 C18;;
    src/epoch/gregorian.rs) echo C08 C09 C10 C13 C19 C20;;
    src/epoch/ops.rs) echo C04 C12 C14 C16 C20 C15;;
    src/epoch/mod.rs) echo C05 C06 C07 C17 C20 C10 C09 C12;;
    src/epoch/initializers.rs) echo C05 C17 C20 C08 C07 C10;;
    src/epoch/formatting.rs) echo C09 C10 C19;;
    src/epoch/leap_seconds*) echo C06 C08;;
    src/epoch/with_funcs.rs) echo C16;;
    src/timescale/*) echo C05 C13 C10 C08 C09;;
    src/timeunits.rs) echo C02 C18 C01 C11;;
    src/weekday.rs) echo C16 C13 C19;;
    src/month.rs) echo C09 C13 C19;;
    src/timeseries.rs) echo C15;;
    src/efmt/*) echo C19 C13 C10;;
    src/parser.rs) echo C13 C10 C19;;
  esac
}
while IFS=$'\t' read -r id file line col orig repl; do
  git -C "$WT" checkout -q -- .
  python3 - "$WT/$file" "$line" "$col" "$orig" "$repl" <<'PY' || { echo "$id $file:$line:$col apply-failed" >> "$out"; continue; }
import sys
p, line, col, orig, repl = sys.argv[1], int(sys.argv[2]), int(sys.argv[3]), sys.argv[4], sys.argv[5]
L = open(p).read().split("\n")
s = L[line - 1]
assert s[col:col + len(orig)] == orig, (s, col, orig)
L[line - 1] = s[:col] + repl + s[col + len(orig):]
open(p, "w").write("\n".join(L))
PY
  desc="$id $file:$line:$col '$orig' -> '$repl'"
  suite=$(cd "$WT" && timeout 900 cargo nextest run --workspace --offline --no-fail-fast 2>&1); rc=$?
  if echo "$suite" | grep -qa "error\[E\|error: could not compile\|^error:"; then
    if ! echo "$suite" | grep -qa "Summary"; then echo "$desc | STILLBORN" >> "$out"; continue; fi
  fi
  if [ $rc -ne 0 ]; then echo "$desc | SUITE-KILLED" >> "$out"; continue; fi
  doc=$(cd "$WT" && timeout 900 cargo test --doc --offline 2>&1); rcd=$?
  if [ $rcd -ne 0 ]; then echo "$desc | SUITE-KILLED (doctest)" >> "$out"; continue; fi
  first=$(order_for "$file")
  rest=""; for i in $(seq -w 1 20); do case " $first " in *" C$i "*) ;; *) rest="$rest C$i";; esac; done
  verdict="MISSED"
  for c in $first $rest; do
    o=$(VERIF_WATCHDOG_S=240 VERIF_REPO="$WT" VERIF_EVIDENCE_NAME="_seeded-mut-$slot.json" "$HERE/check" "$c" quick 2>&1); r=$?
    if [ $r -eq 1 ]; then sig=$(echo "$o" | grep -a '^  \[' | head -1 | cut -c1-160); verdict="CAUGHT $c $sig"; break; fi
    if [ $r -eq 2 ]; then why=$(echo "$o" | grep -a '^INCONCLUSIVE' | head -1 | cut -c1-120); verdict="HANG-OR-INCONCLUSIVE $c $why"; break; fi
  done
  echo "$desc | $verdict" >> "$out"
done < "$list"
git -C /repo worktree remove --force "$WT" >/dev/null 2>&1
rm -rf "$CARGO_TARGET_DIR" "$HERE/harness/target-$(echo "$WT" | md5sum | cut -c1-8)"
echo "done-$slot" >> "$out"
