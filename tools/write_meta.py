#!/usr/bin/env python3
"""tools/write_meta.py <tag (r7)> <round number> [<ID>-<tag>mN=<check that catches it> ...]
Writes seeded/<ID>-<tag>mN/meta.json for every seed of a round that has none yet, from seeded/ROUND-<tag>.txt (the VERIFY and
SEEDED lines written by tools/process_round.sh) and the first heading of the sub-agent's notes.md. A seed whose first SEEDED
line says exit=0 was missed as the check stood; it is recorded as closed only when a later SEEDED line (appended by a re-run
after the monitor was strengthened) says exit=1. Extra arguments name a different check that catches a seed (cross-catch)."""
import json, os, re, sys, glob

tag, rnd = sys.argv[1], int(sys.argv[2])
cross = dict(a.split("=") for a in sys.argv[3:])
here = os.path.dirname(os.path.dirname(os.path.abspath(__file__)))
lines = open(f"{here}/seeded/ROUND-{tag}.txt", errors="replace").read().splitlines()
if os.path.exists(f"{here}/seeded/RECHECK-{tag}.txt"):  # tools/recheck_round.sh: the same seeds against the checks as they are now
    lines += open(f"{here}/seeded/RECHECK-{tag}.txt", errors="replace").read().splitlines()
first, last, verify = {}, {}, {}
for l in lines:
    m = re.match(r"SEEDED seeded/(\S+) check=(\S+) exit=(\d+) violations_lines=(\d+)\s*(.*)", l)
    if m:
        name, chk, ex, sig = m.group(1), m.group(2), int(m.group(3)), m.group(5)
        if chk == name[:3]:
            first.setdefault(name, (ex, sig))
            last[name] = (ex, sig)
        elif ex == 1:
            cross.setdefault(name, chk)
    m = re.match(r"VERIFY \S*/seeded/(\S+) \| (.*)", l)
    if m:
        verify[m.group(1)] = m.group(2)
for d in sorted(glob.glob(f"{here}/seeded/*-{tag}m*")):
    name = os.path.basename(d)
    if os.path.exists(f"{d}/meta.json") or name not in first:
        continue
    head = open(f"{d}/notes.md").readline().strip("# \n") if os.path.exists(f"{d}/notes.md") else ""
    head = re.sub(r"^(C\d\d\s*/?\s*)?m\d\s*[-:]\s*", "", head)
    v = verify.get(name, "")
    as_stood = first[name][0] == 1
    now = last[name][0] == 1
    caught_by = [f"{name[:3]} quick"] if now else []
    if name in cross:
        caught_by.append(f"{cross[name]} quick")
    meta = {
        "property": name[:3],
        "round": rnd,
        "origin": f"independent sub-agent given only the property text (statement, quantifier, anchors) and a scratch worktree; told what every earlier change had needed for this property and asked for what is left",
        "needs_to_manifest": head,
        "confirmed_by_me": {
            "how": "tools/verify_seed.sh via tools/process_round.sh (scratch worktree of /repo HEAD, removed afterwards)",
            "result": v,
        },
        "checks_run": f"tools/run_seeded.sh seeded/{name} {name[:3]}  (quick tier, seed 1)",
        "caught_as_the_check_stood": as_stood,
        "caught_by": caught_by,
        "fired": (last[name][1] if now else "")[:400],
        "note": "" if as_stood else ("missed as the check stood; closed afterwards, see DESIGN.md section 8" if caught_by else "MISSED"),
        "run_checks": [name[:3]] if now or name not in cross else [cross[name]],
    }
    json.dump(meta, open(f"{d}/meta.json", "w"), indent=1)
    print(name, "as-stood" if as_stood else ("closed" if caught_by else "MISSED"), caught_by)
