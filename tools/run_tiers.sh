#!/usr/bin/env bash
# Runs the deciding "checked" flavour (release + overflow-checks + debug-assertions). In the thorough tier the
# workload is repeated per sanitizer family / build flavour, one family per build:
#   plain  : release defaults (wrapping arithmetic, no debug_assert) - what a user's release build computes
#   asan   : nightly -Zsanitizer=address (string-facing properties C10 C11 C13 C19)
#   miri   : cargo +nightly miri run, 16 single-threaded shard processes (C13)
# A violation or sanitizer report in any flavour makes the check fail (exit 1); an auxiliary flavour that cannot
# be built or is killed is recorded as inconclusive in the evidence and does not change the verdict.
set -u
ID="$1"; MODE="$2"; TGT="$3"
HERE="$(cd "$(dirname "$0")/.." && pwd)"
H="${VERIF_HARNESS_DIR:-$HERE/harness}"
SEED="${VERIF_SEED:-1}"
"$TGT/release/hfcheck" "$ID" "$MODE"
rc=$?
[ $rc -eq 2 ] && exit 2
# second opinion: an independent Python implementation re-decides the expected values of the sampled event log;
# a disagreement between the two oracles is a defect of my machinery -> INCONCLUSIVE, never a violation
python3 "$HERE/tools/offline_check.py" "$ID" --repo "${VERIF_REPO:-/repo}"
if [ $? -eq 2 ]; then echo "INCONCLUSIVE property=$ID the Rust model and the Python second opinion disagree (see ORACLE-DISAGREEMENT lines)"; exit 2; fi
[ "$MODE" = "thorough" ] || exit $rc
AUX="$TGT/aux-$ID"; rm -rf "$AUX"; mkdir -p "$AUX"
fail=$rc
note() { echo "$1" >> "$AUX/summary.txt"; }

# ---- plain flavour (same target dir as the deciding flavour: already made fresh by ./check)
if (cd "$H" && cargo build --offline --profile plain --bin hfcheck >"$AUX/build-plain.log" 2>&1); then
  "$TGT/plain/hfcheck" "$ID" thorough --flavour plain --budget-div 4 --evidence-name "_aux-plain-$ID.json" >"$AUX/plain.out" 2>&1
  r=$?
  grep -a '^VIOLATION\|^KNOWN-FINDING\|^OK\|^FAIL\|^INCONCLUSIVE' "$AUX/plain.out" | sed 's/^/[plain] /' | cut -c1-400
  if [ $r -eq 1 ]; then fail=1; note "plain violation"; elif [ $r -ne 0 ]; then note "plain inconclusive rc=$r"; else note "plain ok"; fi
else
  note "plain inconclusive: build failed"; echo "[plain] AUX-INCONCLUSIVE build failed (see $AUX/build-plain.log)"
fi

# ---- coverage-guided driver (libFuzzer feeding the PRNG of this property's random workload; same monitors and oracles)
fo=$("$HERE/tools/fuzz_prop.sh" "$ID" "${VERIF_FUZZ_S:-150}" "$TGT" "$AUX" "$SEED" 2>&1); r=$?
echo "$fo" | cut -c1-400
if [ $r -eq 1 ]; then
  mkdir -p "$HERE/replays"
  for a in "$AUX"/fuzz-artifacts/*; do
    [ -f "$a" ] || continue
    rp="$HERE/replays/$ID-thorough-s$SEED-fuzz-$(basename "$a")"; cp "$a" "$rp"
    echo "VIOLATION property=$ID replay=$rp"
  done
  fail=1; note "coverage-guided driver: oracle violation"
elif [ $r -ne 0 ]; then note "coverage-guided driver inconclusive"
else note "$(echo "$fo" | grep -a '^\[fuzz\] property' | head -1)"; fi

case "$ID" in C10|C11|C13|C19)
  # ---- ASan
  ensure_fresh "$TGT-asan"
  if (cd "$H" && RUSTFLAGS="-Zsanitizer=address -Cforce-frame-pointers=yes" CARGO_TARGET_DIR="$TGT-asan" cargo +nightly build --offline --release --target x86_64-unknown-linux-gnu --bin hfcheck >"$AUX/build-asan.log" 2>&1); then
    ASAN_OPTIONS="halt_on_error=1:abort_on_error=0:detect_leaks=1:log_path=$AUX/asan-report" \
      "$TGT-asan/x86_64-unknown-linux-gnu/release/hfcheck" "$ID" thorough --flavour asan --budget-div 8 --evidence-name "_aux-asan-$ID.json" >"$AUX/asan.out" 2>&1
    r=$?
    grep -a '^VIOLATION\|^OK\|^FAIL\|^INCONCLUSIVE' "$AUX/asan.out" | sed 's/^/[asan] /' | cut -c1-400
    if ls "$AUX"/asan-report* >/dev/null 2>&1 || grep -a -q 'ERROR: AddressSanitizer\|ERROR: LeakSanitizer' "$AUX/asan.out"; then
      mkdir -p "$HERE/replays"; rp="$HERE/replays/$ID-thorough-s$SEED-asan-report.txt"
      cat "$AUX"/asan-report* "$AUX/asan.out" 2>/dev/null | head -400 > "$rp"
      echo "VIOLATION property=$ID replay=$rp"; fail=1; note "asan report"
    elif [ $r -eq 1 ]; then fail=1; note "asan-flavour violation"
    elif [ $r -ne 0 ]; then note "asan inconclusive rc=$r"; else note "asan ok"; fi
  else
    note "asan inconclusive: build failed"; echo "[asan] AUX-INCONCLUSIVE build failed (see $AUX/build-asan.log)"
  fi
  ;;
esac

case "$ID" in C06|C10|C11|C13|C19)
  # ---- valgrind memcheck on the plain release binary (no recompilation, every dependency and std included as they ship):
  # invalid reads / writes, use of uninitialised values in conditions, mismatched frees, definite leaks. Threads are
  # serialised by valgrind, so the budget is divided hard; a timeout is inconclusive.
  if command -v valgrind >/dev/null 2>&1 && [ -x "$TGT/plain/hfcheck" ]; then
    case "$ID" in C06) mdiv=50;; C13) mdiv=1000;; *) mdiv=2000;; esac
    timeout 900 valgrind --error-exitcode=97 --leak-check=full --show-leak-kinds=definite --errors-for-leak-kinds=definite --log-file="$AUX/memcheck.log" \
      "$TGT/plain/hfcheck" "$ID" quick --seed "$SEED" --flavour memcheck --budget-div "${VERIF_MEMCHECK_DIV:-$mdiv}" --skip-selftest --evidence-name "_aux-memcheck-$ID.json" >"$AUX/memcheck.out" 2>&1
    r=$?
    grep -a '^VIOLATION\|^OK\|^FAIL\|^INCONCLUSIVE' "$AUX/memcheck.out" | sed 's/^/[memcheck] /' | cut -c1-400
    nerr=$(grep -a 'ERROR SUMMARY' "$AUX/memcheck.log" | tail -1 | sed 's/.*ERROR SUMMARY: \([0-9]*\) errors.*/\1/')
    echo "[memcheck] valgrind error summary: ${nerr:-none} errors (exit $r)"
    if [ "$r" = "97" ] || { [ -n "$nerr" ] && [ "$nerr" != "0" ]; }; then
      mkdir -p "$HERE/replays"; rp="$HERE/replays/$ID-thorough-s$SEED-memcheck-report.txt"; head -300 "$AUX/memcheck.log" > "$rp"
      echo "VIOLATION property=$ID replay=$rp"; fail=1; note "memcheck report"
    elif [ $r -eq 1 ]; then fail=1; note "memcheck-flavour violation"
    elif [ $r -ne 0 ]; then note "memcheck inconclusive rc=$r"; else note "memcheck ok (0 errors)"; fi
  else
    note "memcheck inconclusive: valgrind or the plain binary missing"
  fi
  ;;
esac

if [ "$ID" = "C13" ]; then
  # ---- Miri: 16 shard processes, a few hundred strings x 11 entry points each
  ensure_fresh "$TGT-miri"
  if (cd "$H" && MIRIFLAGS="-Zmiri-disable-isolation" CARGO_TARGET_DIR="$TGT-miri" cargo +nightly miri run --offline --bin hfcheck -- C13 quick --budget-div 100000000 --one-shard 0 --skip-selftest --no-git --evidence-name _aux-miri-warmup.json --flavour miri >"$AUX/build-miri.log" 2>&1); then
    pids=""
    for k in $(seq 0 15); do
      (cd "$H" && MIRIFLAGS="-Zmiri-disable-isolation" CARGO_TARGET_DIR="$TGT-miri" timeout 3000 cargo +nightly miri run --offline --bin hfcheck -- C13 quick --seed "$SEED" --budget-div "${VERIF_MIRI_DIV:-8000}" --one-shard $k --skip-selftest --no-git --evidence-name "_aux-miri-$k.json" --flavour miri >"$AUX/miri-$k.out" 2>&1; echo $? >"$AUX/miri-$k.rc") &
      pids="$pids $!"
    done
    wait $pids
    mok=0; mbad=0; minc=0
    for k in $(seq 0 15); do
      r=$(cat "$AUX/miri-$k.rc" 2>/dev/null || echo 99)
      if grep -a -q 'Undefined Behavior\|error: unsupported operation\|memory leaked\|Data race' "$AUX/miri-$k.out"; then
        rp="$HERE/replays/$ID-thorough-s$SEED-miri-shard$k.txt"; tail -80 "$AUX/miri-$k.out" > "$rp"
        echo "VIOLATION property=$ID replay=$rp"; mbad=$((mbad+1))
      elif [ "$r" = "1" ]; then grep -a '^VIOLATION' "$AUX/miri-$k.out" | sed 's/^/[miri] /'; mbad=$((mbad+1))
      elif [ "$r" = "0" ]; then mok=$((mok+1)); else minc=$((minc+1)); fi
    done
    echo "[miri] shards ok=$mok violating=$mbad inconclusive=$minc"
    note "miri shards ok=$mok violating=$mbad inconclusive=$minc"
    [ $mbad -gt 0 ] && fail=1
  else
    note "miri inconclusive: build/warm-up failed"; echo "[miri] AUX-INCONCLUSIVE warm-up failed (see $AUX/build-miri.log)"
  fi
fi
if [ "$ID" = "C13" ]; then
  # ---- libFuzzer (coverage-guided extra driver): every parsing entry point on (format, text) pairs; a crash is a violation
  ensure_fresh "$TGT-fuzz"
  FZ="$H/fuzz"; mkdir -p "$TGT/fuzz-corpus" "$AUX/fuzz-artifacts"
  if (cd "$FZ" && CARGO_TARGET_DIR="$TGT-fuzz" cargo +nightly fuzz build --fuzz-dir . parsers >"$AUX/build-fuzz.log" 2>&1); then
    (cd "$FZ" && CARGO_TARGET_DIR="$TGT-fuzz" timeout 900 cargo +nightly fuzz run --fuzz-dir . parsers "$TGT/fuzz-corpus" "$FZ/seeds" -- \
        -fork=8 -timeout=10 -max_len=200 -max_total_time="${VERIF_FUZZ_S:-240}" -artifact_prefix="$AUX/fuzz-artifacts/" -seed="$SEED" >"$AUX/fuzz.out" 2>&1)
    last=$(grep -a 'cov:' "$AUX/fuzz.out" | tail -1 | sed 's/^#//' | cut -c1-120)
    ncr=$(ls "$AUX/fuzz-artifacts" 2>/dev/null | grep -c 'crash-\|timeout-\|oom-')
    echo "[fuzz] $last artifacts=$ncr"
    if [ "$ncr" -gt 0 ]; then
      for a in "$AUX"/fuzz-artifacts/*; do
        rp="$HERE/replays/$ID-thorough-s$SEED-fuzz-$(basename "$a")"; cp "$a" "$rp"
        echo "VIOLATION property=$ID replay=$rp"
      done
      grep -a 'panicked at' -A3 "$AUX/fuzz.out" | head -12
      fail=1; note "fuzz: $ncr crashing inputs"
    else note "fuzz ok: $last"; fi
  else
    note "fuzz inconclusive: build failed"; echo "[fuzz] AUX-INCONCLUSIVE build failed (see $AUX/build-fuzz.log)"
  fi
fi
python3 "$HERE/tools/merge_aux.py" "$ID" "$AUX" || true
exit $fail
