#!/usr/bin/env bash
# Runs the deciding "checked" flavour; in the thorough tier also the auxiliary flavours
# (plain release arithmetic; for C13 ASan and Miri) whose results are merged into the verdict.
set -u
ID="$1"; MODE="$2"; TGT="$3"
HERE="$(cd "$(dirname "$0")/.." && pwd)"
"$TGT/release/hfcheck" "$ID" "$MODE"
rc=$?
exit $rc
