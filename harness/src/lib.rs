pub mod core;
pub mod model;
pub mod gen;
pub mod props;
pub mod fuzz;
