//! Coverage-guided driver (libFuzzer, `harness/fuzz/fuzz_targets/oracles.rs`).
//!
//! One input = the bytes that feed the PRNG of a property's *random* workload for a few iterations (`Cfg::fuzz`): the
//! same generators, the same monitors and the same oracles as the registered run, but which strata are visited and with
//! which values is decided by the input, and libFuzzer keeps every input that reaches code (of hifitime or of a
//! monitor's classifier) no earlier input reached. A narrow guard in the library - a fast path, an early return, a
//! special case for one band of values - is new coverage the moment an input gets past it, so the search concentrates
//! there instead of waiting for a uniform sample to fall into the band. The verdict is still the monitors': an input is
//! a finding only if an oracle rejects an observed outcome (known findings are matched as everywhere else).
//!
//! For C13 the raw input is additionally fed as text (split at the first line feed into format and text) to every parser.
use crate::core::*;
use crate::props;
use std::path::PathBuf;

pub struct Outcome {
    pub evals: u64,
    pub violations: Vec<(String, String)>,
    pub known: Vec<String>,
}

fn cfg_for(prop: &str) -> Cfg {
    let verif_dir = PathBuf::from(std::env::var("VERIF_DIR").unwrap_or_else(|_| "/verif".into()));
    let repo_dir = PathBuf::from(std::env::var("VERIF_REPO").unwrap_or_else(|_| "/repo".into()));
    Cfg { prop: prop.to_string(), tier: Tier::Quick, seed: 1, scale: 1, verif_dir, repo_dir, replay: None, flavour: "fuzz".into(), budget_div: 1, fuzz: true }
}

thread_local! {
    static KNOWN: std::cell::RefCell<Option<std::collections::HashSet<String>>> = const { std::cell::RefCell::new(None) };
}

/// Runs the monitors of `prop` on the workload this input selects. Never panics on a violation: the caller decides.
pub fn one_input(prop: &str, data: &[u8]) -> Outcome {
    install_hook();
    thread_local! { static CFG: std::cell::RefCell<Option<Cfg>> = const { std::cell::RefCell::new(None) }; }
    let cfg = CFG.with(|c| {
        let mut c = c.borrow_mut();
        if c.as_ref().map(|x| x.prop != prop).unwrap_or(true) {
            *c = Some(cfg_for(prop));
        }
        c.clone().unwrap()
    });
    let known = KNOWN.with(|k| k.borrow_mut().get_or_insert_with(|| load_known_open(&cfg.verif_dir).0).clone());
    // shard number outside 0..NSHARDS: every "my share of the lattice" / "once per run" guard of a workload is false
    let mut rep = Rep::new(777, None, known);
    rep.lean = true;
    FUZZ_FEED.with(|f| *f.borrow_mut() = Some(std::rc::Rc::new(data.to_vec())));
    if prop == "C13" {
        if let Ok(s) = std::str::from_utf8(data) {
            let (fmt, text) = match s.split_once('\n') {
                Some((a, b)) => (a, b),
                None => ("%Y-%m-%dT%H:%M:%S.%f %T", s),
            };
            props::c13::feed(&mut rep, text, fmt, "str/fuzzer-bytes", true);
        }
    }
    props::run(prop, &cfg, &mut rep);
    FUZZ_FEED.with(|f| *f.borrow_mut() = None);
    let mut violations = vec![];
    for (sig, vs) in &rep.viol {
        violations.push((sig.clone(), vs[0].detail.clone()));
    }
    Outcome { evals: rep.evals, violations, known: rep.known.keys().cloned().collect() }
}

/// Packed corpus file: repeated (u32 little-endian length, bytes). Missing file = empty corpus.
pub fn read_packed(p: &std::path::Path) -> Vec<Vec<u8>> {
    let mut out = vec![];
    let b = match std::fs::read(p) {
        Ok(b) => b,
        Err(_) => return out,
    };
    let mut i = 0usize;
    while i + 4 <= b.len() {
        let n = u32::from_le_bytes([b[i], b[i + 1], b[i + 2], b[i + 3]]) as usize;
        i += 4;
        if i + n > b.len() {
            break;
        }
        out.push(b[i..i + n].to_vec());
        i += n;
    }
    out
}
