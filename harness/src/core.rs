//! Shared machinery: configuration, PRNG, the guarded-call recorder (catch_unwind + panic capture +
//! logical step budget), the per-shard report (event counter, class histogram, distinct-case set,
//! samples, violations, known findings) and the evidence / replay writers.

use serde_json::{json, Value};
use std::cell::{Cell, RefCell};
use std::collections::{BTreeMap, HashSet};
use std::panic::{self, AssertUnwindSafe};
use std::path::PathBuf;
use std::sync::Once;

pub const NSHARDS: u32 = 16;

#[derive(Clone, Copy, PartialEq, Eq, Debug)]
pub enum Tier {
    Quick,
    Thorough,
}
impl Tier {
    pub fn name(self) -> &'static str {
        match self {
            Tier::Quick => "quick",
            Tier::Thorough => "thorough",
        }
    }
}

#[derive(Clone, Debug)]
pub struct Cfg {
    pub prop: String,
    pub tier: Tier,
    pub seed: u64,
    /// Multiplier applied to every random-sample budget (1 for quick; thorough default per property).
    pub scale: u64,
    pub verif_dir: PathBuf,
    pub repo_dir: PathBuf,
    pub replay: Option<(u32, u64)>,
    /// "checked" (overflow checks on) or "plain"
    pub flavour: String,
    /// divides every random budget (used by the slow auxiliary flavours: Miri, ASan, valgrind)
    pub budget_div: u64,
    /// coverage-guided mode (src/fuzz.rs): the seed-independent lattice parts are skipped, every random loop runs
    /// `FUZZ_ITERS` iterations, and the PRNG of the workload is fed from the bytes of the fuzzer's input
    pub fuzz: bool,
}

pub const FUZZ_ITERS: u64 = 3;

impl Cfg {
    /// n random cases for this shard given a quick-tier total of `quick_total` over all shards.
    pub fn budget(&self, quick_total: u64) -> u64 {
        if self.fuzz {
            return FUZZ_ITERS;
        }
        ((quick_total * self.scale) / NSHARDS as u64 / self.budget_div.max(1)).max(1)
    }
    /// Loop index as the workload sees it: the plain index in a normal run; in the coverage-guided mode a value taken
    /// from the input bytes, so that every `k % n == 0` stratum of a loop is reachable within the few iterations an
    /// input pays for (the fuzzer keeps the inputs that reach a new stratum).
    #[inline]
    pub fn k(&self, k: u64, r: &mut Rng) -> u64 {
        if self.fuzz {
            r.below(1 << 13)
        } else {
            k
        }
    }
}

// ---------------------------------------------------------------------------------------------
// PRNG: xoshiro256** seeded through splitmix64

#[derive(Clone)]
pub struct Rng {
    s: [u64; 4],
    /// coverage-guided mode: 64-bit words are taken from these bytes first (little endian), then from the generator
    feed: Option<(std::rc::Rc<Vec<u8>>, usize)>,
}

thread_local! {
    /// input of the coverage-guided driver for the workload running on this thread (None in every normal run)
    pub static FUZZ_FEED: RefCell<Option<std::rc::Rc<Vec<u8>>>> = const { RefCell::new(None) };
}
fn splitmix(x: &mut u64) -> u64 {
    *x = x.wrapping_add(0x9E3779B97F4A7C15);
    let mut z = *x;
    z = (z ^ (z >> 30)).wrapping_mul(0xBF58476D1CE4E5B9);
    z = (z ^ (z >> 27)).wrapping_mul(0x94D049BB133111EB);
    z ^ (z >> 31)
}
impl Rng {
    pub fn new(seed: u64, stream: u64) -> Self {
        let mut x = seed ^ stream.wrapping_mul(0xD1342543DE82EF95) ^ 0x5851F42D4C957F2D;
        let s = [splitmix(&mut x), splitmix(&mut x), splitmix(&mut x), splitmix(&mut x)];
        let feed = FUZZ_FEED.with(|f| f.borrow().clone()).map(|b| (b, 0usize));
        Rng { s, feed }
    }
    #[inline]
    pub fn u64(&mut self) -> u64 {
        if let Some((b, pos)) = &mut self.feed {
            if *pos + 8 <= b.len() {
                let mut w = [0u8; 8];
                w.copy_from_slice(&b[*pos..*pos + 8]);
                *pos += 8;
                return u64::from_le_bytes(w);
            }
        }
        let r = self.s[1].wrapping_mul(5).rotate_left(7).wrapping_mul(9);
        let t = self.s[1] << 17;
        self.s[2] ^= self.s[0];
        self.s[3] ^= self.s[1];
        self.s[1] ^= self.s[2];
        self.s[0] ^= self.s[3];
        self.s[2] ^= t;
        self.s[3] = self.s[3].rotate_left(45);
        r
    }
    /// coverage-guided mode with input bytes left: values are decoded *literally* where they fit (a number libFuzzer copies
    /// from a comparison operand into the input arrives as that number) and reduced modulo the range otherwise
    #[inline]
    fn fed(&self) -> bool {
        match &self.feed {
            Some((b, pos)) => *pos + 8 <= b.len(),
            None => false,
        }
    }
    #[inline]
    pub fn below(&mut self, n: u64) -> u64 {
        if n == 0 {
            0
        } else if self.fed() {
            self.u64() % n
        } else {
            ((self.u64() as u128 * n as u128) >> 64) as u64
        }
    }
    /// uniform in [lo, hi] inclusive
    #[inline]
    pub fn range_i64(&mut self, lo: i64, hi: i64) -> i64 {
        let span = (hi as i128 - lo as i128 + 1) as u128;
        if span > u64::MAX as u128 {
            return self.u64() as i64;
        }
        if self.fed() {
            let x = self.u64() as i64;
            if x >= lo && x <= hi {
                return x;
            }
            return (lo as i128 + (x as u64 % span as u64) as i128) as i64;
        }
        (lo as i128 + self.below(span as u64) as i128) as i64
    }
    pub fn range_i128(&mut self, lo: i128, hi: i128) -> i128 {
        let span = (hi - lo) as u128 + 1;
        let fed = self.fed();
        // (little endian: the low word comes first in the input, so a 64-bit literal written there is the value)
        let (w0, w1) = (self.u64(), self.u64());
        if fed {
            let x = (((w1 as u128) << 64) | w0 as u128) as i128;
            if x >= lo && x <= hi {
                return x;
            }
            // (an even high word: the low word alone is the value, so that one 64-bit literal in the input is enough)
            let x = w0 as i64 as i128;
            if x >= lo && x <= hi && w1 & 1 == 0 {
                return x;
            }
            return lo + ((((w1 as u128) << 64) | w0 as u128) % span) as i128;
        }
        let r = ((w0 as u128) << 64) | w1 as u128;
        lo + (r % span) as i128
    }
    #[inline]
    pub fn bool(&mut self) -> bool {
        self.u64() & 1 == 1
    }
    #[inline]
    pub fn chance(&mut self, num: u64, den: u64) -> bool {
        self.below(den) < num
    }
    pub fn pick<'a, T>(&mut self, xs: &'a [T]) -> &'a T {
        &xs[self.below(xs.len() as u64) as usize]
    }
    pub fn f64_unit(&mut self) -> f64 {
        (self.u64() >> 11) as f64 / (1u64 << 53) as f64
    }
}

pub fn h64(parts: &[u64]) -> u64 {
    let mut h: u64 = 0xcbf29ce484222325;
    for p in parts {
        let mut x = *p;
        h ^= splitmix(&mut x);
        h = h.rotate_left(23).wrapping_mul(0x100000001b3);
    }
    h
}
pub fn hstr(s: &str) -> u64 {
    let mut h: u64 = 0xcbf29ce484222325;
    for b in s.as_bytes() {
        h ^= *b as u64;
        h = h.wrapping_mul(0x100000001b3);
    }
    h
}

// ---------------------------------------------------------------------------------------------
// Guarded calls

#[derive(Clone, Debug)]
pub struct PanicInfo {
    pub msg: String,
    pub loc: String,
    pub step_budget: bool,
}
impl PanicInfo {
    /// normalised class: file:line of the panic site inside the repo (or the message head)
    pub fn class(&self) -> String {
        if self.step_budget {
            return format!("StepBudget[{}]", self.msg);
        }
        // message kind only: cut at the first quoted / parenthesised part (which embeds input text)
        let head = self.msg.split(|c| c == '`' || c == '\'' || c == '"' || c == '(' || c == ':' || c == '{').next().unwrap_or("");
        let mut m = String::new();
        for c in head.chars().take(48) {
            let c = if c.is_ascii_digit() { '#' } else { c };
            if c == '#' && m.ends_with('#') {
                continue;
            }
            m.push(c);
        }
        let loc = if self.loc.starts_with("/rustc/") { self.loc.rsplit_once("library/").map(|x| x.1.to_string()).unwrap_or_default() } else { self.loc.clone() };
        format!("{} @ {}", m.trim(), loc)
    }
}

thread_local! {
    static IN_GUARD: Cell<bool> = const { Cell::new(false) };
    static LAST_PANIC: RefCell<Option<PanicInfo>> = const { RefCell::new(None) };
    pub static PANICS_CAUGHT: Cell<u64> = const { Cell::new(0) };
}
static HOOK: Once = Once::new();

/// (message, file:line) of panics raised in library code outside a guarded call
pub static UNGUARDED_LIB_PANICS: std::sync::Mutex<Vec<(String, String)>> = std::sync::Mutex::new(Vec::new());

pub fn install_hook() {
    HOOK.call_once(|| {
        let prev = panic::take_hook();
        panic::set_hook(Box::new(move |info| {
            if IN_GUARD.with(|g| g.get()) {
                let msg = if let Some(s) = info.payload().downcast_ref::<&str>() {
                    s.to_string()
                } else if let Some(s) = info.payload().downcast_ref::<String>() {
                    s.clone()
                } else {
                    "<non-string payload>".to_string()
                };
                let loc = info
                    .location()
                    .map(|l| {
                        let f = l.file();
                        let f = f.rsplit_once("repo-link/").map(|x| x.1).unwrap_or(f);
                        format!("{}:{}", f, l.line())
                    })
                    .unwrap_or_default();
                let step_budget = msg.starts_with(hifitime::verif_hooks::STEP_BUDGET_PANIC);
                LAST_PANIC.with(|p| *p.borrow_mut() = Some(PanicInfo { msg, loc, step_budget }));
            } else {
                // A panic of the harness itself must stay loud. A panic raised *inside the library* while no guard is active
                // (a monitor called it unguarded) is remembered: hfcheck reports it as a violation, not as a harness failure.
                if let Some(l) = info.location() {
                    if l.file().contains("repo-link/") {
                        let msg = info.payload().downcast_ref::<&str>().map(|s| s.to_string()).or_else(|| info.payload().downcast_ref::<String>().cloned()).unwrap_or_default();
                        let f = l.file().rsplit_once("repo-link/").map(|x| x.1).unwrap_or(l.file());
                        if let Ok(mut v) = UNGUARDED_LIB_PANICS.lock() {
                            v.push((msg, format!("{}:{}", f, l.line())));
                        }
                    }
                }
                prev(info);
            }
        }));
    });
}

pub const STEP_BUDGET: u64 = 2000;

/// Runs `f` (a call into the real library) with panics captured as an outcome.
#[inline]
pub fn guard<T>(f: impl FnOnce() -> T) -> Result<T, PanicInfo> {
    // (re-entrant: a guarded closure may itself call helpers that guard)
    let was = IN_GUARD.with(|g| g.replace(true));
    hifitime::verif_hooks::reset(STEP_BUDGET);
    let r = panic::catch_unwind(AssertUnwindSafe(f));
    IN_GUARD.with(|g| g.set(was));
    match r {
        Ok(v) => Ok(v),
        Err(_) => {
            PANICS_CAUGHT.with(|c| c.set(c.get() + 1));
            Err(LAST_PANIC.with(|p| p.borrow_mut().take()).unwrap_or(PanicInfo {
                msg: "<unknown>".into(),
                loc: String::new(),
                step_budget: false,
            }))
        }
    }
}

// ---------------------------------------------------------------------------------------------
// Report

#[derive(Clone, Debug)]
pub struct Violation {
    pub sig: String,
    pub shard: u32,
    pub idx: u64,
    pub detail: String,
}

pub const DISTINCT_CAP: usize = 1 << 21;

pub struct Rep {
    pub shard: u32,
    pub idx: u64,
    pub evals: u64,
    pub classes: BTreeMap<String, u64>,
    pub distinct: HashSet<u64>,
    pub distinct_overflow: u64,
    pub samples: BTreeMap<String, Vec<String>>,
    pub viol: BTreeMap<String, Vec<Violation>>,
    pub viol_count: BTreeMap<String, u64>,
    pub known: BTreeMap<String, (u64, String)>,
    pub notes: BTreeMap<String, f64>,
    pub replay: Option<(u32, u64)>,
    pub known_open: HashSet<String>,
    pub verbose: bool,
    /// sampled event log for the offline second-opinion checker (tools/offline_check.py)
    pub log: Vec<String>,
    pub log_seen: BTreeMap<String, u64>,
    /// coverage-guided mode: no samples, no event log (a fresh report per input would otherwise format every event)
    pub lean: bool,
}

pub const LOG_CAP_PER_SHARD: usize = 3000;

impl Rep {
    pub fn new(shard: u32, replay: Option<(u32, u64)>, known_open: HashSet<String>) -> Self {
        Rep {
            shard,
            idx: 0,
            evals: 0,
            classes: BTreeMap::new(),
            distinct: HashSet::new(),
            distinct_overflow: 0,
            samples: BTreeMap::new(),
            viol: BTreeMap::new(),
            viol_count: BTreeMap::new(),
            known: BTreeMap::new(),
            notes: BTreeMap::new(),
            replay,
            known_open,
            verbose: replay.is_some(),
            log: Vec::new(),
            log_seen: BTreeMap::new(),
            lean: false,
        }
    }

    /// Starts a new case (always returns true; kept as a bool so that call sites read `if !rep.tick() { return }`).
    #[inline]
    pub fn tick(&mut self) -> bool {
        // Replay mode re-executes the whole shard (so that the event numbering is exactly that of the recorded run,
        // whatever the control flow of the monitor) and only *reports* for the recorded event index, see `fail`.
        self.idx += 1;
        match self.replay {
            None => self.evals += 1,
            Some((s, i)) => {
                if s == self.shard && i == self.idx {
                    self.evals += 1;
                }
            }
        }
        true
    }

    #[inline]
    fn replay_muted(&self) -> bool {
        match self.replay {
            None => false,
            Some((s, i)) => !(s == self.shard && i == self.idx),
        }
    }

    /// Class histogram (input class x outcome class). `nontrivial` cases should also call `nt`.
    #[inline]
    pub fn class(&mut self, name: &str) {
        if let Some(c) = self.classes.get_mut(name) {
            *c += 1;
        } else {
            self.classes.insert(name.to_string(), 1);
        }
    }

    /// Registers a non-trivial case by the hash of its arguments.
    #[inline]
    pub fn nt(&mut self, h: u64) {
        if self.distinct.len() < DISTINCT_CAP {
            self.distinct.insert(h);
        } else {
            self.distinct_overflow += 1;
        }
    }

    pub fn sample(&mut self, class: &str, f: impl FnOnce() -> String) {
        if self.lean {
            return;
        }
        let v = self.samples.entry(class.to_string()).or_default();
        if v.len() < 2 {
            v.push(f());
        }
    }

    /// Records an event {op, args, expected by the Rust model} for the offline checker: the first 40 events of
    /// each op and then one in 997, up to a cap per shard. `f` builds the JSON object body (without braces).
    #[inline]
    pub fn log_event(&mut self, op: &str, f: impl FnOnce() -> String) {
        if self.lean {
            return;
        }
        let n = self.log_seen.entry(op.to_string()).or_insert(0);
        *n += 1;
        if (*n <= 40 || *n % 997 == 0) && self.log.len() < LOG_CAP_PER_SHARD {
            let body = f();
            self.log.push(format!("{{\"op\":\"{}\",{}}}", op, body));
        }
    }

    pub fn note_max(&mut self, key: &str, v: f64) {
        let e = self.notes.entry(key.to_string()).or_insert(f64::NEG_INFINITY);
        if v > *e {
            *e = v;
        }
    }

    /// Reports a failed expectation. `finding` names the known finding this event matches exactly
    /// (decided by the caller through the deformed model); it only counts as known when the
    /// committed known_findings.json lists that id as open.
    pub fn fail(&mut self, sig: &str, finding: Option<&str>, detail: impl FnOnce() -> String) {
        if self.replay_muted() {
            return;
        }
        if let Some(f) = finding {
            if self.known_open.contains(f) {
                let e = self.known.entry(f.to_string()).or_insert((0, String::new()));
                e.0 += 1;
                if e.1.is_empty() {
                    e.1 = detail();
                }
                if self.verbose {
                    println!("REPLAY: matches known finding {} : {}", f, e.1);
                }
                return;
            }
        }
        *self.viol_count.entry(sig.to_string()).or_insert(0) += 1;
        let v = self.viol.entry(sig.to_string()).or_default();
        if v.len() < 3 {
            let d = detail();
            if self.verbose {
                println!("REPLAY: VIOLATED {} : {}", sig, d);
            }
            v.push(Violation { sig: sig.to_string(), shard: self.shard, idx: self.idx, detail: d });
        }
    }

    pub fn merge(&mut self, o: Rep) {
        self.evals += o.evals;
        self.idx += o.idx;
        for (k, v) in o.classes {
            *self.classes.entry(k).or_insert(0) += v;
        }
        for h in o.distinct {
            if self.distinct.len() < DISTINCT_CAP * 4 {
                self.distinct.insert(h);
            } else {
                self.distinct_overflow += 1;
            }
        }
        self.distinct_overflow += o.distinct_overflow;
        for (k, v) in o.samples {
            let e = self.samples.entry(k).or_default();
            for s in v {
                if e.len() < 2 {
                    e.push(s);
                }
            }
        }
        for (k, v) in o.viol {
            let e = self.viol.entry(k).or_default();
            for s in v {
                if e.len() < 3 {
                    e.push(s);
                }
            }
        }
        for (k, v) in o.viol_count {
            *self.viol_count.entry(k).or_insert(0) += v;
        }
        for (k, v) in o.known {
            let e = self.known.entry(k).or_insert((0, String::new()));
            e.0 += v.0;
            if e.1.is_empty() {
                e.1 = v.1;
            }
        }
        for l in o.log {
            if self.log.len() < LOG_CAP_PER_SHARD * 20 {
                self.log.push(l);
            }
        }
        for (k, v) in o.notes {
            let e = self.notes.entry(k).or_insert(f64::NEG_INFINITY);
            if v > *e {
                *e = v;
            }
        }
    }
}

pub struct Meta {
    pub rule: &'static str,
    pub assumptions: &'static [&'static str],
    /// classes that must be non-empty for the run to be conclusive
    pub mandatory: &'static [&'static str],
    /// default scale for the thorough tier
    pub thorough_scale: u64,
    pub exhaustive_part: &'static str,
}

pub fn load_known_open(verif_dir: &std::path::Path) -> (HashSet<String>, Value) {
    let p = verif_dir.join("known_findings.json");
    let mut set = HashSet::new();
    let v: Value = match std::fs::read_to_string(&p) {
        Ok(s) => serde_json::from_str(&s).unwrap_or_else(|e| {
            eprintln!("INCONCLUSIVE: cannot parse {}: {}", p.display(), e);
            std::process::exit(2)
        }),
        Err(_) => json!({"findings": []}),
    };
    if let Some(a) = v.get("findings").and_then(|x| x.as_array()) {
        for f in a {
            if f.get("status").and_then(|s| s.as_str()) == Some("open") {
                if let Some(id) = f.get("id").and_then(|s| s.as_str()) {
                    set.insert(id.to_string());
                }
            }
        }
    }
    (set, v)
}

pub fn git_rev(dir: &std::path::Path) -> String {
    std::process::Command::new("git")
        .arg("-C")
        .arg(dir)
        .args(["rev-parse", "--short", "HEAD"])
        .output()
        .ok()
        .map(|o| String::from_utf8_lossy(&o.stdout).trim().to_string())
        .unwrap_or_default()
}

pub fn fmt_f64(x: f64) -> String {
    format!("{:e}[{:#018x}]", x, x.to_bits())
}
