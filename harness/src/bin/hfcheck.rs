//! hfcheck <ID> <quick|thorough> [--replay <file>]
//! exit 0: held on everything explored (KNOWN-FINDING lines for listed open findings)
//! exit 1: VIOLATION property=<ID> replay=<path>
//! exit 2: INCONCLUSIVE (harness problem, empty mandatory class, model self-test failure)
use hfverif::core::*;
use hfverif::props;
use serde_json::{json, Value};
use std::collections::BTreeMap;
use std::path::PathBuf;
use std::time::Instant;

thread_local! {
    static CORPUS: std::cell::RefCell<Option<std::sync::Arc<Vec<Vec<u8>>>>> = const { std::cell::RefCell::new(None) };
}
fn hex(b: &[u8]) -> String {
    b.iter().map(|x| format!("{:02x}", x)).collect()
}
fn unhex(s: &str) -> Vec<u8> {
    (0..s.len() / 2).filter_map(|i| u8::from_str_radix(&s[2 * i..2 * i + 2], 16).ok()).collect()
}

fn main() {
    let args: Vec<String> = std::env::args().collect();
    if args.len() < 3 {
        eprintln!("usage: hfcheck <ID> <quick|thorough> [--replay file]");
        std::process::exit(2);
    }
    let prop = args[1].clone();
    let verif_dir = PathBuf::from(std::env::var("VERIF_DIR").unwrap_or_else(|_| "/verif".into()));
    let repo_dir = PathBuf::from(std::env::var("VERIF_REPO").unwrap_or_else(|_| "/repo".into()));
    let mut tier = match args[2].as_str() {
        "thorough" => Tier::Thorough,
        _ => Tier::Quick,
    };
    let mut seed: u64 = std::env::var("VERIF_SEED").ok().and_then(|s| s.trim().parse::<i64>().ok()).map(|x| x as u64).unwrap_or(1);
    let mut replay = None;
    if args.len() >= 5 && args[3] == "--replay" {
        let raw = std::fs::read(&args[4]).expect("read replay file");
        let parsed: Option<Value> = std::str::from_utf8(&raw).ok().and_then(|s| serde_json::from_str::<Value>(s).ok()).filter(|v| v.get("event_index").is_some() || v.get("fuzz_input_hex").is_some() || v.get("unguarded").is_some());
        // an input of the coverage-guided driver (a libFuzzer artifact, or a corpus entry quoted in a replay document)
        let fuzz_bytes: Option<Vec<u8>> = match &parsed {
            None => Some(raw.clone()),
            Some(v) => v.get("fuzz_input_hex").and_then(|h| h.as_str()).map(unhex),
        };
        if let Some(bytes) = fuzz_bytes {
            println!("REPLAY of {} coverage-guided input ({} bytes)", prop, bytes.len());
            let out = hfverif::fuzz::one_input(&prop, &bytes);
            for (sig, det) in &out.violations {
                println!("REPLAY: VIOLATED {} : {}", sig, det);
            }
            for k in &out.known {
                println!("REPLAY: matches known finding {}", k);
            }
            println!("REPLAY verdict: {} ({} events judged)", if !out.violations.is_empty() { "VIOLATION reproduced" } else if !out.known.is_empty() { "known finding reproduced" } else { "no violation on this tree" }, out.evals);
            std::process::exit(if out.violations.is_empty() { 0 } else { 1 });
        }
        let v: Value = parsed.unwrap();
        if v.get("unguarded").is_some() {
            // a library panic in an unguarded call ended a shard: the same seed and tier re-execute it
            println!("REPLAY of {}: re-running the {} tier at seed {} (the recorded run ended on: {})", prop, v["tier"], v["seed"], v["detail"]);
            let exe = std::env::current_exe().expect("current_exe");
            let st = std::process::Command::new(exe).args([prop.as_str(), v["tier"].as_str().unwrap_or("quick"), "--seed", &v["seed"].as_i64().unwrap_or(1).to_string(), "--evidence-name", "_aux-replay.json"]).status();
            std::process::exit(st.ok().and_then(|s| s.code()).unwrap_or(2));
        }
        seed = v["seed"].as_u64().unwrap();
        tier = if v["tier"] == "thorough" { Tier::Thorough } else { Tier::Quick };
        replay = Some((v["shard"].as_u64().unwrap() as u32, v["event_index"].as_u64().unwrap()));
        if let Some(sc) = v["scale"].as_u64() {
            std::env::set_var("VERIF_SCALE", sc.to_string());
        }
        println!("REPLAY of {} seed={} tier={} shard={} event={}", prop, seed, tier.name(), replay.unwrap().0, replay.unwrap().1);
        println!("recorded: {}", v["detail"]);
    }
    // optional flags (used by the auxiliary flavours; parameters by argv because Miri isolates the environment)
    let mut budget_div: u64 = 1;
    let mut one_shard: Option<u32> = None;
    let mut evidence_name: Option<String> = std::env::var("VERIF_EVIDENCE_NAME").ok();
    let mut skip_selftest = false;
    let mut no_git = false;
    let mut flavour_arg: Option<String> = None;
    let mut seed_arg: Option<u64> = None;
    let mut cold_probe: Option<usize> = None;
    let mut no_cold = false;
    {
        let mut i = 3;
        while i < args.len() {
            match args[i].as_str() {
                "--budget-div" => {
                    budget_div = args[i + 1].parse().unwrap();
                    i += 1;
                }
                "--one-shard" => {
                    one_shard = Some(args[i + 1].parse().unwrap());
                    i += 1;
                }
                "--evidence-name" => {
                    evidence_name = Some(args[i + 1].clone());
                    i += 1;
                }
                "--flavour" => {
                    flavour_arg = Some(args[i + 1].clone());
                    i += 1;
                }
                "--seed" => {
                    seed_arg = Some(args[i + 1].parse::<i64>().unwrap() as u64);
                    i += 1;
                }
                "--cold-probe" => {
                    cold_probe = Some(args[i + 1].parse().unwrap());
                    i += 1;
                }
                "--no-cold" => no_cold = true,
                "--skip-selftest" => skip_selftest = true,
                "--no-git" => no_git = true,
                "--replay" => i += 1,
                _ => {}
            }
            i += 1;
        }
    }
    if let Some(sd) = seed_arg {
        seed = sd;
    }
    let meta = match props::meta(&prop) {
        Some(m) => m,
        None => {
            println!("INCONCLUSIVE property={} unknown property id", prop);
            std::process::exit(2);
        }
    };
    let scale = std::env::var("VERIF_SCALE")
        .ok()
        .and_then(|s| s.parse::<u64>().ok())
        .unwrap_or(if tier == Tier::Thorough { meta.thorough_scale } else { 1 });
    let flavour = flavour_arg.unwrap_or_else(|| std::env::var("VERIF_FLAVOUR").unwrap_or_else(|_| "checked".into()));
    let cfg = Cfg { prop: prop.clone(), tier, seed, scale, verif_dir: verif_dir.clone(), repo_dir: repo_dir.clone(), replay, flavour: flavour.clone(), budget_div, fuzz: false };
    let (known_open, known_doc) = load_known_open(&verif_dir);
    install_hook();
    let t0 = Instant::now();

    // cold-start probe (child process of a deciding run): the monitors of this property applied to one anchor are the
    // first library calls of this process; the outcome goes to stdout as one JSON document
    if let Some(ci) = cold_probe {
        let mut rep = Rep::new(100 + ci as u32, None, known_open.clone());
        props::cold::run(&prop, &cfg, &mut rep, ci);
        let viol: Vec<Value> = rep.viol.values().flatten().map(|v| json!({"sig": v.sig, "idx": v.idx, "detail": v.detail})).collect();
        let doc = json!({
            "probe": ci, "evals": rep.evals, "viol": viol, "viol_count": rep.viol_count,
            "known": rep.known.iter().map(|(k, v)| (k.clone(), json!([v.0, v.1]))).collect::<serde_json::Map<String, Value>>(),
            "panics": PANICS_CAUGHT.with(|c| c.get()),
        });
        println!("COLD-RESULT {}", doc);
        std::process::exit(0);
    }

    // model self-tests (a failure means the machinery is wrong: inconclusive, never a violation)
    if !skip_selftest {
        match hfverif::model::cal::self_test() {
            Ok(_) => {}
            Err(e) => {
                println!("INCONCLUSIVE property={} calendar model self-test failed: {}", prop, e);
                std::process::exit(2);
            }
        }
    }

    // watchdog: generous wall-clock limit; its firing is inconclusive, not a violation
    let wd_secs: u64 = std::env::var("VERIF_WATCHDOG_S").ok().and_then(|s| s.parse().ok()).unwrap_or(if tier == Tier::Thorough { 4 * 3600 } else { 1500 });
    if one_shard.is_none() {
        let prop = prop.clone();
        std::thread::spawn(move || {
            std::thread::sleep(std::time::Duration::from_secs(wd_secs));
            println!("INCONCLUSIVE property={} watchdog fired after {} s", prop, wd_secs);
            std::process::exit(2);
        });
    }

    if let Some((sh, _)) = replay {
        if sh >= 100 {
            let mut rep = Rep::new(sh, replay, known_open.clone());
            props::cold::run(&prop, &cfg, &mut rep, (sh - 100) as usize);
            let bad = !rep.viol.is_empty();
            println!("REPLAY (cold-start probe {}) verdict: {}", sh - 100, if bad { "VIOLATION reproduced" } else if !rep.known.is_empty() { "known finding reproduced" } else { "no violation on this tree" });
            std::process::exit(if bad { 1 } else { 0 });
        }
    }
    let shards: Vec<u32> = match (replay, one_shard) {
        (Some((s, _)), _) => vec![s],
        (None, Some(k)) => vec![k],
        (None, None) => (0..NSHARDS).collect(),
    };
    let mut total = Rep::new(999, None, known_open.clone());
    let mut panics = 0u64;
    let mut handles = vec![];
    if one_shard.is_some() && replay.is_none() {
        // single shard in the main thread (Miri / valgrind runs)
        let mut rep = Rep::new(shards[0], None, known_open.clone());
        props::run(&prop, &cfg, &mut rep);
        panics += PANICS_CAUGHT.with(|c| c.get());
        total.merge(rep);
    }
    for sh in if one_shard.is_some() && replay.is_none() { vec![] } else { shards } {
        let cfg = cfg.clone();
        let ko = known_open.clone();
        let prop = prop.clone();
        handles.push(
            std::thread::Builder::new()
                .stack_size(64 << 20)
                .spawn(move || {
                    let mut rep = Rep::new(sh, cfg.replay, ko);
                    props::run(&prop, &cfg, &mut rep);
                    let p = PANICS_CAUGHT.with(|c| c.get());
                    (rep, p)
                })
                .unwrap(),
        );
    }
    for h in handles {
        match h.join() {
            Ok((rep, p)) => {
                total.merge(rep);
                panics += p;
            }
            Err(_) => {
                // a panic raised by the library itself in a call a monitor made without a guard is the library's outcome
                let lib: Vec<(String, String)> = UNGUARDED_LIB_PANICS.lock().map(|v| v.clone()).unwrap_or_default();
                if let Some((msg, loc)) = lib.first() {
                    let info = PanicInfo { msg: msg.clone(), loc: loc.clone(), step_budget: false };
                    let sig = format!("unguarded-call/panic/{}", info.class());
                    let fname = format!("{}-{}-s{}-{}-{:08x}.json", prop, tier.name(), seed, flavour, hstr(&sig) as u32);
                    let path = verif_dir.join("replays").join(&fname);
                    let _ = std::fs::create_dir_all(verif_dir.join("replays"));
                    let doc = json!({"property": prop, "signature": sig, "seed": seed as i64, "tier": tier.name(), "scale": scale, "flavour": flavour, "unguarded": true,
                        "detail": format!("the library panicked in a call of the monitor: {} at {}", msg, loc), "replay_cmd": format!("./check {} {}  (the same seed re-executes the shard and panics again)", prop, tier.name())});
                    let _ = std::fs::write(&path, serde_json::to_string_pretty(&doc).unwrap());
                    println!("  [{}] the library panicked in a call of the monitor: {} at {}", sig, msg, loc);
                    println!("VIOLATION property={} replay={}", prop, path.display());
                    println!("FAIL property={} violations=1 distinct_signatures=1 (a shard ended on a library panic; the other counters of this run are incomplete)", prop);
                    std::process::exit(1);
                }
                println!("INCONCLUSIVE property={} a harness shard panicked outside a guarded call", prop);
                std::process::exit(2);
            }
        }
    }
    // cold-start probes: fresh processes whose first library calls are this property's monitors on one anchor each
    let mut cold_json = json!({"processes": 0});
    if replay.is_none() && one_shard.is_none() && !no_cold {
        let exe = std::env::current_exe().expect("current_exe");
        let mut kids = vec![];
        for ci in 0..props::cold::COUNT {
            let child = std::process::Command::new(&exe)
                .args([prop.as_str(), tier.name(), "--cold-probe", &ci.to_string(), "--seed", &(seed as i64).to_string(), "--skip-selftest", "--no-git"])
                .env("VERIF_DIR", &verif_dir)
                .stdout(std::process::Stdio::piped())
                .stderr(std::process::Stdio::null())
                .spawn();
            kids.push((ci, child));
        }
        let mut cold_evals = 0u64;
        let mut cold_ok = 0u64;
        for (ci, child) in kids {
            let out = match child.and_then(|c| c.wait_with_output()) {
                Ok(o) => o,
                Err(e) => {
                    println!("INCONCLUSIVE property={} cold-start probe {} could not be run: {}", prop, ci, e);
                    std::process::exit(2);
                }
            };
            let text = String::from_utf8_lossy(&out.stdout).to_string();
            let doc: Option<Value> = text.lines().find_map(|l| l.strip_prefix("COLD-RESULT ")).and_then(|j| serde_json::from_str(j).ok());
            let doc = match doc {
                Some(d) if out.status.success() => d,
                _ => {
                    println!("INCONCLUSIVE property={} cold-start probe {} ended without a result (status {:?})", prop, ci, out.status.code());
                    std::process::exit(2);
                }
            };
            let mut rep = Rep::new(100 + ci as u32, None, known_open.clone());
            rep.evals = doc["evals"].as_u64().unwrap_or(0);
            cold_evals += rep.evals;
            cold_ok += 1;
            panics += doc["panics"].as_u64().unwrap_or(0);
            if let Some(a) = doc["viol"].as_array() {
                for v in a {
                    let sig = format!("cold-start/{}", v["sig"].as_str().unwrap_or("?"));
                    rep.viol.entry(sig.clone()).or_default().push(Violation { sig, shard: 100 + ci as u32, idx: v["idx"].as_u64().unwrap_or(0), detail: format!("[first calls of a fresh process, probe {}] {}", ci, v["detail"].as_str().unwrap_or("")) });
                }
            }
            if let Some(m) = doc["viol_count"].as_object() {
                for (k, n) in m {
                    rep.viol_count.insert(format!("cold-start/{}", k), n.as_u64().unwrap_or(1));
                }
            }
            if let Some(m) = doc["known"].as_object() {
                for (k, v) in m {
                    rep.known.insert(k.clone(), (v[0].as_u64().unwrap_or(1), v[1].as_str().unwrap_or("").to_string()));
                }
            }
            rep.classes.insert("cold-start-probe".into(), 1);
            total.merge(rep);
        }
        cold_json = json!({"processes": cold_ok, "evaluations": cold_evals, "anchors": "props/cold.rs EPOCH_ANCHORS x dur_anchor"});
    }
    // corpus of the coverage-guided driver (committed, packed): every entry is one more workload, judged by the same monitors
    let mut corpus_json = json!({"entries": 0});
    if replay.is_none() && one_shard.is_none() && !no_cold {
        let entries = hfverif::fuzz::read_packed(&verif_dir.join("corpus").join(format!("{}.bin", prop)));
        if !entries.is_empty() {
            let entries = std::sync::Arc::new(entries);
            let mut hs = vec![];
            for t in 0..NSHARDS as usize {
                let entries = entries.clone();
                let prop = prop.clone();
                hs.push(std::thread::Builder::new().stack_size(64 << 20).spawn(move || {
                    let mut evals = 0u64;
                    let mut viol: Vec<(String, String, usize)> = vec![];
                    let mut known: BTreeMap<String, u64> = BTreeMap::new();
                    for (i, e) in entries.iter().enumerate() {
                        if i % NSHARDS as usize != t {
                            continue;
                        }
                        let out = hfverif::fuzz::one_input(&prop, e);
                        evals += out.evals;
                        for (sig, det) in out.violations {
                            viol.push((sig, det, i));
                        }
                        for k in out.known {
                            *known.entry(k).or_insert(0) += 1;
                        }
                    }
                    (evals, viol, known, PANICS_CAUGHT.with(|c| c.get()))
                }).unwrap());
            }
            let mut cev = 0u64;
            let mut rep = Rep::new(200, None, known_open.clone());
            for h in hs {
                match h.join() {
                    Ok((ev, viol, known, p)) => {
                        cev += ev;
                        panics += p;
                        for (sig, det, i) in viol {
                            let sig = format!("corpus/{}", sig);
                            *rep.viol_count.entry(sig.clone()).or_insert(0) += 1;
                            let v = rep.viol.entry(sig.clone()).or_default();
                            if v.len() < 3 {
                                v.push(Violation { sig, shard: 200, idx: i as u64, detail: format!("[corpus entry {}] {}", i, det) });
                            }
                        }
                        for (k, n) in known {
                            let e = rep.known.entry(k).or_insert((0, "corpus entry".to_string()));
                            e.0 += n;
                        }
                    }
                    Err(_) => {
                        println!("INCONCLUSIVE property={} the corpus replay panicked outside a guarded call", prop);
                        std::process::exit(2);
                    }
                }
            }
            rep.evals = cev;
            rep.classes.insert("corpus-entry".into(), entries.len() as u64);
            total.merge(rep);
            corpus_json = json!({"entries": entries.len(), "evaluations": cev, "source": format!("corpus/{}.bin (inputs kept by libFuzzer for new coverage of hifitime + monitors; tools/fuzz_corpus.sh)", prop)});
            CORPUS.with(|c| *c.borrow_mut() = Some(entries));
        }
    }
    let wall = t0.elapsed().as_secs_f64();

    if replay.is_some() {
        if total.evals == 0 {
            println!("REPLAY: event not reached (generator changed?)");
            std::process::exit(2);
        }
        let bad = !total.viol.is_empty();
        println!("REPLAY verdict: {}", if bad { "VIOLATION reproduced" } else if !total.known.is_empty() { "known finding reproduced" } else { "no violation on this tree" });
        std::process::exit(if bad { 1 } else { 0 });
    }

    // ---- verdict
    let repo_rev = if no_git { String::new() } else { git_rev(&repo_dir) };
    let mut nviol = 0u64;
    let mut viol_json = vec![];
    let replay_dir = verif_dir.join("replays");
    let _ = std::fs::create_dir_all(&replay_dir);
    let mut lines = vec![];
    for (sig, vs) in &total.viol {
        let cnt = total.viol_count.get(sig).copied().unwrap_or(0);
        nviol += cnt;
        let v = &vs[0];
        let fname = format!("{}-{}-s{}-{}-{:08x}.json", prop, tier.name(), seed, flavour, hstr(sig) as u32);
        let path = replay_dir.join(&fname);
        let fuzz_hex: Option<String> = if v.shard == 200 { CORPUS.with(|c| c.borrow().as_ref().and_then(|e| e.get(v.idx as usize).map(|b| hex(b)))) } else { None };
        let doc = json!({
            "property": prop, "signature": sig, "seed": seed, "tier": tier.name(), "scale": scale, "flavour": flavour,
            "shard": v.shard, "event_index": v.idx, "detail": v.detail, "count_in_run": cnt, "fuzz_input_hex": fuzz_hex,
            "more_examples": vs.iter().skip(1).map(|x| x.detail.clone()).collect::<Vec<_>>(),
            "repo_rev": repo_rev, "replay_cmd": format!("./check {} --replay {}", prop, path.display()),
        });
        let _ = std::fs::write(&path, serde_json::to_string_pretty(&doc).unwrap());
        lines.push(format!("VIOLATION property={} replay={}", prop, path.display()));
        println!("  [{}] x{} e.g. {}", sig, cnt, v.detail);
        viol_json.push(json!({"signature": sig, "count": cnt, "example": v.detail}));
    }
    // known findings
    let mut known_json = vec![];
    let mut what: BTreeMap<String, String> = BTreeMap::new();
    if let Some(a) = known_doc.get("findings").and_then(|x| x.as_array()) {
        for f in a {
            if let (Some(id), Some(w)) = (f.get("id").and_then(|s| s.as_str()), f.get("what").and_then(|s| s.as_str())) {
                what.insert(id.to_string(), w.to_string());
            }
        }
    }
    for (id, (cnt, ex)) in &total.known {
        println!("KNOWN-FINDING: property={} {} {} [matched {} events, e.g. {}]", prop, id, what.get(id).cloned().unwrap_or_default(), cnt, ex);
        known_json.push(json!({"id": id, "matched_events": cnt, "example": ex}));
    }
    // mandatory classes
    let mut missing = vec![];
    for m in meta.mandatory {
        if total.classes.get(*m).copied().unwrap_or(0) == 0 {
            missing.push(*m);
        }
    }

    // ---- evidence
    let mut samples = vec![];
    for (k, v) in &total.samples {
        for s in v {
            samples.push(json!({"class": k, "case": s}));
        }
    }
    let distinct = total.distinct.len() as u64;
    let ev = json!({
        "property_id": prop,
        "tier": tier.name(),
        "seed": seed as i64,
        "level": "exploration",
        "coverage": {
            "evaluations": total.evals,
            "distinct_nontrivial": distinct,
            "distinct_nontrivial_note": format!("size of a hash set of non-trivial case hashes (capped; {} further non-trivial cases were not inserted after the cap)", total.distinct_overflow),
            "rule": meta.rule,
            "samples": samples,
            "exhaustive": false,
            "exhaustive_part": meta.exhaustive_part,
            "class_histogram": total.classes,
            "panics_caught": panics,
            "observed_maxima": total.notes,
            "known_findings_matched": known_json,
            "violations_found": viol_json,
            "mandatory_classes_missing": missing,
            "flavour": flavour,
            "scale": scale,
            "repo_rev": repo_rev,
            "shards": NSHARDS,
            "cold_start_probes": cold_json,
            "coverage_guided_corpus": corpus_json,
        },
        "assumptions": meta.assumptions,
        "wall_s": wall,
        "violations": nviol as i64,
    });
    let evname = evidence_name.unwrap_or_else(|| format!("{}.json", prop));
    let evdir = verif_dir.join("evidence");
    let _ = std::fs::create_dir_all(&evdir);
    std::fs::write(evdir.join(evname), serde_json::to_string_pretty(&ev).unwrap()).expect("write evidence");

    // sampled event log for the offline second-opinion checker
    if !total.log.is_empty() && !no_git {
        let logdir = verif_dir.join("logs");
        let _ = std::fs::create_dir_all(&logdir);
        let _ = std::fs::write(logdir.join(format!("{}.jsonl", prop)), total.log.join("\n") + "\n");
    }
    for l in &lines {
        println!("{}", l);
    }
    if !lines.is_empty() {
        println!("FAIL property={} violations={} distinct_signatures={} evaluations={} wall={:.1}s", prop, nviol, lines.len(), total.evals, wall);
        std::process::exit(1);
    }
    if !missing.is_empty() && one_shard.is_none() && budget_div == 1 {
        println!("INCONCLUSIVE property={} mandatory classes never observed: {:?}", prop, missing);
        std::process::exit(2);
    }
    println!(
        "OK property={} tier={} seed={} flavour={} evaluations={} distinct_nontrivial={} panics_caught={} known_findings={} wall={:.1}s",
        prop, tier.name(), seed, flavour, total.evals, distinct, panics, total.known.len(), wall
    );
}
