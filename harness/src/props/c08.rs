//! C08 Gregorian date -> Epoch: exact day count, valid dates accepted, invalid rejected.
use crate::core::*;
use crate::model::cal;
use crate::model::dur::*;
use crate::model::leap;
use crate::model::scale::*;
use crate::model::text::{count_of, Fields};
use crate::props::days::for_days;
use hifitime::{is_gregorian_valid, Epoch, TimeScale};

pub fn meta() -> Meta {
    Meta {
        rule: "events = maybe_from_gregorian(y,m,d,h,mi,s,ns,scale) (+ _utc/_tai, is_gregorian_valid and, for accepted inputs, the panicking from_gregorian* / _at_midnight / _at_noon / _hms family). Expected (M-CAL): accept/reject partition of the statement; for accepted inputs with second < 60 parts == days(ref date -> date)*86400 s + time of day - ref time of day, refs 1900-01-01 00:00 (TAI/TT/UTC), 2000-01-01 12:00 (ET/TDB), 1980-01-06 (GPST/QZSST), 1999-08-22 (GST), 2006-01-01 (BDT); rejection must be Err, never a panic or another date. second = 60 must be accepted at 23:59 on the 27 insertion days and rejected elsewhere. Don't-care: hour == 24, ns == 1e9, second = 60 on 1971-12-31. Generation: enumerated calendar days (quick: every day of 1850-2150 in all nine scales + every 7th day of years 1-9999 with the scale rotated; thorough: every day x nine scales) x {00:00:00.0, 23:59:59.999999999, random time}; sampled years out to +-30000; rejection lattice (each field at 0, max, max+1, 255/u32::MAX crossed with valid others); second = 60 on every 30 Jun / 31 Dec 1960-2030 at 23:59 and at other times. Non-trivial = every accepted construction (distinct (date,time,scale) hashes) and every rejection-lattice point. Rounds 7-9: the full cross of the special values of all six fields (7x8x5x4x5x5 values x eight years, 224 000 tuples, one in sixteen also through the panicking family); the panicking family on every accepted 60th second.",
        assumptions: &["M-CAL closed forms (self-tested against a naive accumulator at start-up)"],
        mandatory: &["valid/first-ns-of-day", "valid/last-ns-of-day", "valid/feb-29", "valid/before-1900", "valid/year-beyond-9999", "valid/negative-year", "reject/month", "reject/day", "reject/feb-29-non-leap", "reject/hour", "reject/minute", "reject/second", "reject/nanos", "leap/accepted-insertion-day", "leap/rejected-other-time", "leap/rejected-other-date"],
        thorough_scale: 1,
        exhaustive_part: "thorough: every calendar day of years 1..9999 x nine scales x 3 times of day; quick: every day of 1850..2150 x nine scales + every 7th day elsewhere",
    }
}

fn insertion_day(tab: &[(i64, i64)], y: i64, m: u32, d: u32) -> bool {
    // the day immediately preceding entries 2..28
    let z = cal::days_from_1900(y, m, d) + 1;
    tab.iter().skip(1).any(|&(ts, _)| ts == z * 86400)
}

#[derive(PartialEq, Debug, Clone, Copy)]
pub enum Want {
    Accept,
    Reject,
    DontCare,
}

pub fn classify(tab: &[(i64, i64)], y: i64, m: u32, d: u32, h: u32, mi: u32, s: u32, ns: u32) -> (Want, &'static str) {
    if m == 0 || m > 12 {
        return (Want::Reject, "reject/month");
    }
    if d == 0 || d > cal::dim(y, m) {
        return (Want::Reject, if m == 2 && d == 29 { "reject/feb-29-non-leap" } else { "reject/day" });
    }
    if h > 24 {
        return (Want::Reject, "reject/hour");
    }
    if mi > 59 {
        return (Want::Reject, "reject/minute");
    }
    if s > 60 {
        return (Want::Reject, "reject/second");
    }
    if ns > 1_000_000_000 {
        return (Want::Reject, "reject/nanos");
    }
    if s == 60 {
        // "second = 60 at any other time of day [than 23:59] or on a date that does not immediately precede an entry" is
        // an error - also when the hour is the unspecified 24 or the nanoseconds the unspecified 10^9
        if y == 1971 && m == 12 && d == 31 {
            return (Want::DontCare, "dc/1971-12-31-second-60");
        }
        if !insertion_day(tab, y, m, d) {
            return (Want::Reject, "leap/rejected-other-date");
        }
        if !(h == 23 && mi == 59) {
            return (Want::Reject, "leap/rejected-other-time");
        }
        if ns == 1_000_000_000 {
            return (Want::DontCare, "dc/hour24-or-ns1e9");
        }
        return (Want::Accept, "leap/accepted-insertion-day");
    }
    if h == 24 || ns == 1_000_000_000 {
        return (Want::DontCare, "dc/hour24-or-ns1e9");
    }
    (Want::Accept, "valid")
}

#[allow(clippy::too_many_arguments)]
pub fn check(rep: &mut Rep, tab: &[(i64, i64)], y: i32, m: u8, d: u8, h: u8, mi: u8, s: u8, ns: u32, ts: TimeScale, family: bool) {
    if !rep.tick() {
        return;
    }
    let (want, cls) = classify(tab, y as i64, m as u32, d as u32, h as u32, mi as u32, s as u32, ns);
    let det = || format!("maybe_from_gregorian({y},{m},{d},{h},{mi},{s},{ns},{:?})", ts);
    if !(-30_000..=30_000).contains(&y) {
        // Far years: the statement says nothing about dates whose count is not representable, nor about what a bound does to
        // the computation on the way. A date is judged when its own year and the next, counted both from the scale's
        // reference and from 1900-01-01 of the scale's calendar, are representable (one calendar year inside the range).
        let z = crate::model::scale::greg_zero_ns(ts);
        let y0 = count_of(&Fields { y: y as i64, m: 1, d: 1, h: 0, mi: 0, s: 0, ns: 0 }, ts);
        let y1 = count_of(&Fields { y: y as i64 + 1, m: 12, d: 31, h: 23, mi: 59, s: 59, ns: 999_999_999 }, ts);
        let inside = |v: i128| v > MIN_NS && v < MAX_NS;
        if !(inside(y0) && inside(y1) && inside(y0 + z) && inside(y1 + z)) {
            rep.class("dont-care/year-at-the-bounds");
            return;
        }
        rep.class(if y < 0 { "far-year/negative" } else { "far-year/positive" });
    }
    if cls == "valid" {
        if h == 0 && mi == 0 && s == 0 && ns == 0 {
            rep.class("valid/first-ns-of-day");
        } else if h == 23 && mi == 59 && s == 59 && ns == 999_999_999 {
            rep.class("valid/last-ns-of-day");
        }
        if m == 2 && d == 29 {
            rep.class("valid/feb-29");
        }
        if y < 1900 {
            rep.class("valid/before-1900");
        }
        if y > 9999 {
            rep.class("valid/year-beyond-9999");
        }
        if y < 0 {
            rep.class("valid/negative-year");
        }
    } else {
        rep.class(cls);
    }
    rep.nt(h64(&[y as u64, m as u64, d as u64, h as u64, mi as u64, s as u64, ns as u64, scale_idx(ts)]));
    rep.log_event("greg", || {
        let cnt = if want == Want::Accept && s < 60 { count_of(&Fields { y: y as i64, m: m as u32, d: d as u32, h: h as u32, mi: mi as u32, s: s as u32, ns }, ts).to_string() } else { "none".to_string() };
        format!("\"f\":[{},{},{},{},{},{},{}],\"scale\":\"{:?}\",\"want\":\"{:?}\",\"count\":\"{}\"", y, m, d, h, mi, s, ns, ts, want, cnt)
    });
    rep.sample(cls, || format!("{} => {:?}", det(), want));
    let got = guard(|| (Epoch::maybe_from_gregorian(y, m, d, h, mi, s, ns, ts), is_gregorian_valid(y, m, d, h, mi, s, ns)));
    match got {
        Err(p) => rep.fail(&format!("gregorian/panic/{}", p.class()), None, || format!("{} panicked: {} at {}", det(), p.msg, p.loc)),
        Ok((res, valid)) => {
            match (&res, want) {
                (Ok(g), Want::Reject) => {
                    // known finding F25: 30/31 February of a leap year is taken for 1/2 March
                    let mut fid = None;
                    if m == 2 && (d == 30 || d == 31) && cal::is_leap(y as i64) && h <= 24 && mi < 60 && s < 60 && ns <= 1_000_000_000 {
                        let f = Fields { y: y as i64, m: 2, d: 29, h: h as u32, mi: mi as u32, s: s as u32, ns };
                        if count_d(g.duration) == count_of(&f, ts) + (d as i128 - 29) * NS_D && g.time_scale == ts {
                            fid = Some("F25-feb-30-leap-year");
                        }
                    }
                    rep.fail(&format!("gregorian/accepted-invalid/{cls}"), fid, || format!("{} = Ok({:?}), must be rejected ({cls})", det(), res.as_ref().unwrap().duration.to_parts()))
                }
                (Err(e), Want::Accept) => rep.fail(&format!("gregorian/rejected-valid/{cls}"), None, || format!("{} = Err({:?}), must be accepted", det(), e)),
                _ => {}
            }
            if want != Want::DontCare && valid != (want == Want::Accept) {
                let fid = if valid && cls == "reject/day" && m == 2 && (d == 30 || d == 31) && cal::is_leap(y as i64) && h <= 24 && mi < 60 && s < 60 && ns <= 1_000_000_000 { Some("F25-feb-30-leap-year") } else { None };
                rep.fail(&format!("is_gregorian_valid/{cls}"), fid, || format!("is_gregorian_valid({y},{m},{d},{h},{mi},{s},{ns}) = {valid}, want {:?}", want));
            }
            if let (Ok(e), Want::Accept) = (&res, want) {
                if e.time_scale != ts {
                    rep.fail("gregorian/scale-tag", None, || format!("{} tagged {:?}", det(), e.time_scale));
                }
                if s < 60 {
                    let f = Fields { y: y as i64, m: m as u32, d: d as u32, h: h as u32, mi: mi as u32, s: s as u32, ns };
                    let w = count_of(&f, ts);
                    let gp = e.duration.to_parts();
                    if !is_canonical(gp) || count(gp) != w {
                        rep.fail("gregorian/value", None, || format!("{} = {} (count {}), want count {} [off by {} ns = {} days]", det(), fmt_parts(gp), count(gp), w, count(gp) - w, (count(gp) - w) / NS_D));
                    }
                }
                if family {
                    // the panicking family on a valid input
                    let e0 = *e;
                    match guard(|| {
                        let mut v = vec![("from_gregorian", Epoch::from_gregorian(y, m, d, h, mi, s, ns, ts))];
                        if ns == 0 {
                            v.push(("from_gregorian_hms", Epoch::from_gregorian_hms(y, m, d, h, mi, s, ts)));
                        }
                        if ts == TimeScale::UTC {
                            v.push(("maybe_from_gregorian_utc", Epoch::maybe_from_gregorian_utc(y, m, d, h, mi, s, ns).unwrap()));
                            v.push(("from_gregorian_utc", Epoch::from_gregorian_utc(y, m, d, h, mi, s, ns)));
                            if ns == 0 {
                                v.push(("from_gregorian_utc_hms", Epoch::from_gregorian_utc_hms(y, m, d, h, mi, s)));
                            }
                        }
                        if ts == TimeScale::TAI {
                            v.push(("maybe_from_gregorian_tai", Epoch::maybe_from_gregorian_tai(y, m, d, h, mi, s, ns).unwrap()));
                            v.push(("from_gregorian_tai", Epoch::from_gregorian_tai(y, m, d, h, mi, s, ns)));
                            if ns == 0 {
                                v.push(("from_gregorian_tai_hms", Epoch::from_gregorian_tai_hms(y, m, d, h, mi, s)));
                            }
                        }
                        let mid = (Epoch::from_gregorian_at_midnight(y, m, d, ts), Epoch::from_gregorian_at_noon(y, m, d, ts));
                        let mid2 = if ts == TimeScale::UTC {
                            Some((Epoch::from_gregorian_utc_at_midnight(y, m, d), Epoch::from_gregorian_utc_at_noon(y, m, d)))
                        } else if ts == TimeScale::TAI {
                            Some((Epoch::from_gregorian_tai_at_midnight(y, m, d), Epoch::from_gregorian_tai_at_noon(y, m, d)))
                        } else {
                            None
                        };
                        (v, mid, mid2)
                    }) {
                        Err(p) => rep.fail(&format!("gregorian-family/panic/{}", p.class()), None, || format!("from_gregorian* family for valid ({y},{m},{d},{h},{mi},{s},{ns},{:?}) panicked: {}", ts, p.msg)),
                        Ok((v, mid, mid2)) => {
                            for (name, g) in v {
                                if g.time_scale != ts || g.duration.to_parts() != e0.duration.to_parts() {
                                    rep.fail("gregorian-family/value", None, || format!("{name}({y},{m},{d},{h},{mi},{s},{ns}) differs from maybe_from_gregorian"));
                                }
                            }
                            let fm = Fields { y: y as i64, m: m as u32, d: d as u32, h: 0, mi: 0, s: 0, ns: 0 };
                            let wm = count_of(&fm, ts);
                            let mut pairs = vec![("at_midnight/at_noon", mid)];
                            if let Some(m2) = mid2 {
                                pairs.push(("utc|tai at_midnight/at_noon", m2));
                            }
                            for (name, (a, b)) in pairs {
                                if count_d(a.duration) != wm || count_d(b.duration) != wm + 12 * NS_H || a.time_scale != ts || b.time_scale != ts {
                                    rep.fail("gregorian-family/midnight-noon", None, || format!("{name}({y},{m},{d},{:?}) = {} / {} want {} / +12h", ts, count_d(a.duration), count_d(b.duration), wm));
                                }
                            }
                        }
                    }
                }
            }
        }
    }
}

/// The panicking constructors on an input the statement rejects: the only "error" such a function can return is a
/// panic, so every variant must panic for the arguments it sees (the _hms variants see nanosecond 0, the at_midnight /
/// at_noon variants 00:00:00 / 12:00:00); returning an epoch is "a shifted date". F25 (30/31 February in a leap year)
/// is matched exactly as in `check`.
#[allow(clippy::too_many_arguments)]
pub fn check_family_reject(rep: &mut Rep, tab: &[(i64, i64)], y: i32, m: u8, d: u8, h: u8, mi: u8, s: u8, ns: u32, ts: TimeScale) {
    if !rep.tick() {
        return;
    }
    type Ctor = Box<dyn Fn() -> Epoch>;
    let mut v: Vec<(&'static str, (u8, u8, u8, u32), Ctor)> = vec![
        ("from_gregorian", (h, mi, s, ns), Box::new(move || Epoch::from_gregorian(y, m, d, h, mi, s, ns, ts))),
        ("from_gregorian_hms", (h, mi, s, 0), Box::new(move || Epoch::from_gregorian_hms(y, m, d, h, mi, s, ts))),
        ("from_gregorian_at_midnight", (0, 0, 0, 0), Box::new(move || Epoch::from_gregorian_at_midnight(y, m, d, ts))),
        ("from_gregorian_at_noon", (12, 0, 0, 0), Box::new(move || Epoch::from_gregorian_at_noon(y, m, d, ts))),
    ];
    if ts == TimeScale::UTC {
        v.push(("from_gregorian_utc", (h, mi, s, ns), Box::new(move || Epoch::from_gregorian_utc(y, m, d, h, mi, s, ns))));
        v.push(("from_gregorian_utc_hms", (h, mi, s, 0), Box::new(move || Epoch::from_gregorian_utc_hms(y, m, d, h, mi, s))));
        v.push(("from_gregorian_utc_at_midnight", (0, 0, 0, 0), Box::new(move || Epoch::from_gregorian_utc_at_midnight(y, m, d))));
        v.push(("from_gregorian_utc_at_noon", (12, 0, 0, 0), Box::new(move || Epoch::from_gregorian_utc_at_noon(y, m, d))));
    }
    if ts == TimeScale::TAI {
        v.push(("from_gregorian_tai", (h, mi, s, ns), Box::new(move || Epoch::from_gregorian_tai(y, m, d, h, mi, s, ns))));
        v.push(("from_gregorian_tai_hms", (h, mi, s, 0), Box::new(move || Epoch::from_gregorian_tai_hms(y, m, d, h, mi, s))));
        v.push(("from_gregorian_tai_at_midnight", (0, 0, 0, 0), Box::new(move || Epoch::from_gregorian_tai_at_midnight(y, m, d))));
        v.push(("from_gregorian_tai_at_noon", (12, 0, 0, 0), Box::new(move || Epoch::from_gregorian_tai_at_noon(y, m, d))));
    }
    for (name, (h2, mi2, s2, ns2), f) in v {
        let (want, cls) = classify(tab, y as i64, m as u32, d as u32, h2 as u32, mi2 as u32, s2 as u32, ns2);
        if want != Want::Reject {
            continue;
        }
        rep.class("family-reject");
        if let Ok(g) = guard(|| f()) {
            let mut fid = None;
            if m == 2 && (d == 30 || d == 31) && cal::is_leap(y as i64) && h2 <= 24 && mi2 < 60 && s2 < 60 && ns2 <= 1_000_000_000 {
                let fl = Fields { y: y as i64, m: 2, d: 29, h: h2 as u32, mi: mi2 as u32, s: s2 as u32, ns: ns2 };
                if count_d(g.duration) == count_of(&fl, ts) + (d as i128 - 29) * NS_D && g.time_scale == ts {
                    fid = Some("F25-feb-30-leap-year");
                }
            }
            rep.fail(&format!("gregorian-family/accepted-invalid/{cls}"), fid, || format!("{name}({y},{m},{d},{h2},{mi2},{s2},{ns2},{:?}) returned {} instead of failing ({cls})", ts, fmt_parts(g.duration.to_parts())));
        }
    }
}

pub fn run(cfg: &Cfg, rep: &mut Rep) {
    let sh = rep.shard;
    let tab = leap::table();
    let mut r = Rng::new(cfg.seed, 0x0800 + sh as u64);
    let full = cfg.tier == Tier::Thorough;
    // enumerated days
    let a = cal::days_from_1900(1850, 1, 1);
    let b = cal::days_from_1900(2150, 12, 31);
    let mut rr = r.clone();
    for_days(cfg, sh, full, 7, |y, m, d, z| {
        let dense = z >= a && z <= b;
        let scales: Vec<TimeScale> = if full || dense { SCALES.to_vec() } else { vec![SCALES[(z.rem_euclid(9)) as usize]] };
        for ts in scales {
            let (y, m, d) = (y as i32, m as u8, d as u8);
            check(rep, &tab, y, m, d, 0, 0, 0, 0, ts, z % 5 == 0);
            check(rep, &tab, y, m, d, 23, 59, 59, 999_999_999, ts, false);
            check(rep, &tab, y, m, d, rr.below(24) as u8, rr.below(60) as u8, rr.below(60) as u8, rr.below(1_000_000_000) as u32, ts, z % 11 == 0);
        }
    });
    // every instant of the shared reading lattice (references, their mirror images, scale constants, leap seconds, century
    // and year limits +- a few ns), decoded into fields by the model and constructed from them
    let mut li = 0usize;
    for ts in SCALES {
        if cfg.fuzz {
            break;
        }
        for c in crate::gen::reading_lattice(ts, &tab) {
            li += 1;
            if li % NSHARDS as usize != sh as usize {
                continue;
            }
            let f = crate::model::text::fields_of(c, ts);
            if f.y >= i32::MIN as i64 && f.y <= i32::MAX as i64 {
                rep.class("valid/reading-lattice");
                check(rep, &tab, f.y as i32, f.m as u8, f.d as u8, f.h as u8, f.mi as u8, f.s as u8, f.ns, ts, li % 4 == 0);
            }
        }
    }
    // sampled years out to +-30000
    let nfar = if cfg.fuzz { FUZZ_ITERS } else { cfg.budget(16_000).max(200) };
    for _ in 0..nfar {
        let y = match r.below(7) {
            0 => r.range_i64(-30000, 0),
            1 => r.range_i64(10000, 30000),
            2 => r.range_i64(-400, 400),
            3 => r.range_i64(-30000, 30000),
            // (the quantifier of C08 ends at +-30 000 years: the representable range beyond it - about 3.27 million years either
            // side of 1900 - is deliberately not judged, see DESIGN.md section 8, round 6)
            4 => r.range_i64(-30_000, -29_000),
            5 => r.range_i64(29_000, 30_000),
            // years that alias an ordinary year modulo 2^8 / 2^12 (a table lookup or a cast on a narrower integer)
            _ => (r.range_i64(1900, 2030) + *r.pick(&[256i64, 4096, 400, 1024]) * r.range_i64(-6, 6)).clamp(-30_000, 30_000),
        } as i32;
        let m = 1 + r.below(12) as u8;
        let d = 1 + r.below(cal::dim(y as i64, m as u32) as u64) as u8;
        let ts = crate::gen::rand_scale(&mut r);
        let (h, mi, s, ns) = match r.below(3) {
            0 => (0, 0, 0, 0),
            1 => (23, 59, 59, 999_999_999),
            _ => (r.below(24) as u8, r.below(60) as u8, r.below(60) as u8, r.below(1_000_000_000) as u32),
        };
        check(rep, &tab, y, m, d, h, mi, s, ns, ts, true);
    }
    // rejection lattice
    let nrej = cfg.budget(400_000);
    let fv = |r: &mut Rng, max_valid: u64| -> u64 {
        match r.below(8) {
            0 => 0,
            1 => max_valid,
            2 => max_valid + 1,
            3 => 255,
            4 => max_valid + 2,
            5 => r.below(256),
            _ => r.below(max_valid + 1),
        }
    };
    for k in 0..nrej {
        let k = cfg.k(k, &mut r);
        let y = if r.chance(1, 4) { r.range_i64(-30000, 30000) } else { r.range_i64(1890, 2030) } as i32;
        // start from a valid tuple, then push 1-2 fields to lattice values
        let mut m = 1 + r.below(12);
        let mut d = 1 + r.below(cal::dim(y as i64, m as u32) as u64);
        let (mut h, mut mi, mut s, mut ns) = (r.below(24), r.below(60), r.below(60), r.below(1_000_000_000));
        for _ in 0..1 + r.below(2) {
            match r.below(7) {
                0 => m = fv(&mut r, 12),
                1 => d = fv(&mut r, cal::dim(y as i64, m.clamp(1, 12) as u32) as u64),
                2 => h = fv(&mut r, 23),
                3 => mi = fv(&mut r, 59),
                4 => s = fv(&mut r, 59),
                5 => ns = *r.pick(&[0, 999_999_999, 1_000_000_000, 1_000_000_001, u32::MAX as u64, 2_000_000_000]),
                _ => {
                    m = 2;
                    d = 29 + r.below(2);
                }
            }
        }
        let ts = crate::gen::rand_scale(&mut r);
        check(rep, &tab, y, m as u8, d as u8, h as u8, mi as u8, s as u8, ns as u32, ts, false);
        if k % 8 == 0 {
            // the panicking family must fail too (one in eight: a caught panic costs microseconds); TAI and UTC have
            // twice as many variants, so they get half of these
            let ts = if k % 16 == 0 { *r.pick(&[TimeScale::TAI, TimeScale::UTC]) } else { ts };
            check_family_reject(rep, &tab, y, m as u8, d as u8, h as u8, mi as u8, s as u8, ns as u32, ts);
        }
    }
    // the full cross of the special values of all six fields (seed-independent): an acceptance path for one unusual value
    // (hour 24, second 60, nanoseconds 10^9) must not bypass the check of any *other* field - whichever combination of them
    // the input carries. The random lattice above pushes one or two fields only and leaves the others random.
    if !cfg.fuzz {
        let mut idx = 0u32;
        for y in [1900i32, 2000, 2021, 2024, 1972, 2016, -4, 9999] {
            for m in [0u8, 1, 2, 4, 12, 13, 255] {
                for d in [0u8, 1, 28, 29, 30, 31, 32, 255] {
                    for h in [0u8, 23, 24, 25, 255] {
                        for mi in [0u8, 59, 60, 255] {
                            for s in [0u8, 59, 60, 61, 255] {
                                idx += 1;
                                if idx % NSHARDS != sh {
                                    continue;
                                }
                                for ns in [0u32, 999_999_999, 1_000_000_000, 1_000_000_001, u32::MAX] {
                                    let ts = SCALES[((idx + ns % 7) % 9) as usize];
                                    check(rep, &tab, y, m, d, h, mi, s, ns, ts, false);
                                    if (idx / NSHARDS + ns % 5) % 16 == 0 {
                                        check_family_reject(rep, &tab, y, m, d, h, mi, s, ns, ts);
                                    }
                                }
                            }
                        }
                    }
                }
            }
        }
    }
    // second = 60 on every 30 Jun / 31 Dec 1960..2030 (and other dates), crossed with every time of day class and every
    // nanosecond class: the leap-second acceptance must not bypass any other field's check
    for y in 1960..=2030 {
        if (y as u32) % NSHARDS != sh || cfg.fuzz {
            continue;
        }
        // a 60th second in a year that aliases this one modulo 2^16 / 2^8 / 400 years: no leap second was ever inserted there
        for k in [1i32, -1, 2, -2, 7, -7, 49, -49] {
            for (yy, what) in [(y + 4096 * k.clamp(-6, 6), 4096), (y + 256 * k, 256), (y + 400 * k, 400)] {
                let _ = what;
                for (m, d) in [(6u8, 30u8), (12, 31)] {
                    let ts = SCALES[((y + k) as usize + m as usize) % 9];
                    check(rep, &tab, yy, m, d, 23, 59, 60, 0, ts, false);
                    check(rep, &tab, yy, m, d, 23, 59, 59, 999_999_999, ts, false);
                }
            }
        }
        for (m, d) in [(6u8, 30u8), (12, 31), (3, 31), (6, 29), (12, 30), (1, 1), (7, 1)] {
            for ts in SCALES {
                for (h, mi) in [(23u8, 59u8), (23, 58), (22, 59), (0, 0), (12, 30), (23, 60), (24, 59), (24, 0), (24, 30), (25, 59), (23, 255)] {
                    for ns in [0u32, 5, 999_999_999, 1_000_000_000, 1_000_000_001, 2_000_000_000, u32::MAX] {
                        // (an accepted 60th second is a valid input like any other: the panicking family must build it too)
                        check(rep, &tab, y, m, d, h, mi, 60, ns, ts, h == 23 && mi == 59 && ns < 10);
                    }
                }
                check_family_reject(rep, &tab, y, m, d, 23, 59, 60, 1_000_000_001, ts);
                check_family_reject(rep, &tab, y, m, d, 23, 58, 60, 0, ts);
                check(rep, &tab, y, m, d, 23, 59, 61, 0, ts, false);
            }
        }
    }
}
