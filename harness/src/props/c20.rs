//! C20 GNSS week/time-of-week, ns counters and day-of-year are exact and invertible.
use crate::core::*;
use crate::gen;
use crate::model::cal;
use crate::model::dur::*;
use crate::model::flt;
use crate::model::scale::*;
use crate::model::text::{count_of, Fields};
use crate::props::c05::ep;
use hifitime::{Epoch, TimeScale};

pub fn meta() -> Meta {
    Meta {
        rule: "events = from_time_of_week(week, ns, scale) (+_utc) and to_time_of_week on the result and on arbitrary epochs at/after the reference; from_{gpst,qzsst,gst,bdt}_nanoseconds(u64) and to_*_nanoseconds on epochs of any scale; from_day_of_year(year, day, scale) then day_of_year / year_days_of_year / duration_in_year. Expected: parts == week*7 d + ns after the scale's zero; unique (week, ns < 604800 s) pair that rebuilds the epoch; counter Ok(n) iff 0 <= count < 1 century with n == count, else Err; year equal and |day - input| <= 8 ulp(366) + 1 ns, 1 January == day 1.0 exactly. Generation: weeks {0,1,1023,1024,2047,2048, random u32 below the largest representable, the largest}, ns {0,1,week-1,week, random u64 that stays representable}; epochs from each reference onward in all scales and just before it for the Err clause; u64 counters incl. >= 1 century and u64::MAX; (year 1..9999, day in [1, 366|367)). Non-trivial = week >= 1024, ns >= one week (carries into the week count), counter beyond one century / negative, epoch in another scale than the counter, day within 1e-6 of an integer or of the year end; distinct = distinct input hashes among those.",
        assumptions: &["M-SCALE zero points; M-CAL"],
        mandatory: &["tow/week>=1024", "tow/ns>=one-week", "tow/decompose-arbitrary", "ctr/beyond-one-century", "ctr/negative", "ctr/cross-scale", "ctr/non-uniform-holder", "ctr/ok", "doy/first-day", "doy/near-year-end", "doy/leap-year"],
        thorough_scale: 40,
        exhaustive_part: "lattice of weeks x ns x nine scales; every year 1..9999 x day 1.0",
    }
}

pub fn check_tow(rep: &mut Rep, week: u32, ns: u64, s: TimeScale) {
    let want = week as i128 * NS_W + ns as i128;
    if want >= MAX_NS {
        return; // not representable: outside the quantifier
    }
    if !rep.tick() {
        return;
    }
    let mut nt = false;
    if week >= 1024 {
        rep.class("tow/week>=1024");
        nt = true;
    }
    if ns as i128 >= NS_W {
        rep.class("tow/ns>=one-week");
        nt = true;
    }
    if nt {
        rep.nt(h64(&[1, week as u64, ns, scale_idx(s)]));
    }
    rep.log_event("tow", || format!("\"week\":{},\"ns\":{},\"want\":\"{}\"", week, ns, want));
    rep.sample("tow", || format!("from_time_of_week({week}, {ns}, {:?}) => count {}", s, want));
    match guard(|| {
        let e = Epoch::from_time_of_week(week, ns, s);
        let u = if s == TimeScale::UTC { Some(Epoch::from_time_of_week_utc(week, ns)) } else { None };
        (e, u, e.to_time_of_week())
    }) {
        Err(p) => rep.fail(&format!("tow/panic/{}", p.class()), None, || format!("from_time_of_week({week},{ns},{:?}) panicked: {}", s, p.msg)),
        Ok((e, u, back)) => {
            if e.time_scale != s || count_d(e.duration) != want || !is_canonical(e.duration.to_parts()) {
                rep.fail("tow/from-value", None, || format!("from_time_of_week({week},{ns},{:?}) = ({}, {:?}) want count {}", s, count_d(e.duration), e.time_scale, want));
            }
            if let Some(u) = u {
                if u.time_scale != TimeScale::UTC || count_d(u.duration) != want {
                    rep.fail("tow/from-utc-value", None, || format!("from_time_of_week_utc({week},{ns}) = {}", count_d(u.duration)));
                }
            }
            let ww = (want / NS_W, want % NS_W);
            if (back.0 as i128, back.1 as i128) != ww {
                rep.fail("tow/to-value", None, || format!("from_time_of_week({week},{ns},{:?}).to_time_of_week() = {:?} want {:?}", s, back, ww));
            }
        }
    }
}

pub fn check_tow_of(rep: &mut Rep, c: i128, s: TimeScale) {
    if c < 0 || c / NS_W > u32::MAX as i128 {
        return;
    }
    if !rep.tick() {
        return;
    }
    rep.class("tow/decompose-arbitrary");
    rep.nt(h64(&[2, c as u64, (c >> 64) as u64, scale_idx(s)]));
    let e = ep(c, s);
    match guard(|| {
        let (w, n) = e.to_time_of_week();
        (w, n, Epoch::from_time_of_week(w, n, s))
    }) {
        Err(p) => rep.fail(&format!("tow/panic/{}", p.class()), None, || format!("Epoch({c},{:?}).to_time_of_week() panicked: {}", s, p.msg)),
        Ok((w, n, back)) => {
            if w as i128 != c / NS_W || n as i128 != c % NS_W {
                rep.fail("tow/to-value", None, || format!("Epoch({c},{:?}).to_time_of_week() = ({w},{n}) want ({},{})", s, c / NS_W, c % NS_W));
            }
            if back.duration.to_parts() != e.duration.to_parts() || back.time_scale != s {
                rep.fail("tow/rebuild", None, || format!("Epoch({c},{:?}) -> ({w},{n}) -> {}", s, count_d(back.duration)));
            }
        }
    }
}

const CTR: [TimeScale; 4] = [TimeScale::GPST, TimeScale::QZSST, TimeScale::GST, TimeScale::BDT];

pub fn check_ctr_from(rep: &mut Rep, n: u64, s: TimeScale) {
    if !rep.tick() {
        return;
    }
    if n as i128 >= NPC {
        rep.class("ctr/beyond-one-century");
        rep.nt(h64(&[3, n, scale_idx(s)]));
    }
    rep.sample("ctr-from", || format!("from_{:?}_nanoseconds({n})", s));
    match guard(|| {
        let e = match s {
            TimeScale::GPST => Epoch::from_gpst_nanoseconds(n),
            TimeScale::QZSST => Epoch::from_qzsst_nanoseconds(n),
            TimeScale::GST => Epoch::from_gst_nanoseconds(n),
            _ => Epoch::from_bdt_nanoseconds(n),
        };
        (e, read_ctr(&e, s))
    }) {
        Err(p) => rep.fail(&format!("ctr/panic/{}", p.class()), None, || format!("from_{:?}_nanoseconds({n}) panicked: {}", s, p.msg)),
        Ok((e, back)) => {
            if e.time_scale != s || count_d(e.duration) != n as i128 || !is_canonical(e.duration.to_parts()) {
                rep.fail("ctr/from-value", None, || format!("from_{:?}_nanoseconds({n}) = ({}, {:?})", s, fmt_parts(e.duration.to_parts()), e.time_scale));
            }
            judge_ctr(rep, n as i128, back, &|| format!("from_{:?}_nanoseconds({n}).to_*_nanoseconds()", s));
        }
    }
}

fn read_ctr(e: &Epoch, s: TimeScale) -> Result<u64, String> {
    match s {
        TimeScale::GPST => e.to_gpst_nanoseconds(),
        TimeScale::QZSST => e.to_qzsst_nanoseconds(),
        TimeScale::GST => e.to_gst_nanoseconds(),
        _ => e.to_bdt_nanoseconds(),
    }
    .map_err(|x| format!("{:?}", x))
}

fn judge_ctr(rep: &mut Rep, cnt: i128, got: Result<u64, String>, det: &dyn Fn() -> String) {
    let fits = cnt >= 0 && cnt < NPC;
    match got {
        Ok(n) => {
            if !fits || n as i128 != cnt {
                rep.fail("ctr/to-value", None, || format!("{} = Ok({n}), count is {} ({})", det(), cnt, if fits { "fits" } else { "must be Err" }));
            } else {
                rep.class("ctr/ok");
            }
        }
        Err(_) => {
            if fits {
                rep.fail("ctr/err-although-fits", None, || format!("{} = Err, count {} fits in one century", det(), cnt));
            }
        }
    }
}

/// epoch held in UTC or ET/TDB read through a GNSS counter (the counter belongs to the instant, whatever scale holds it)
pub fn check_ctr_of_any(rep: &mut Rep, w: &World, c: i128, s: TimeScale, ctr: TimeScale) {
    if !rep.tick() {
        return;
    }
    let t = w.to_tai(c, s);
    let cnt = t - zero_tai_ns(ctr);
    let tol: i128 = if is_dyn(s) { 30 } else { 0 };
    rep.class("ctr/non-uniform-holder");
    rep.nt(h64(&[6, c as u64, (c >> 64) as u64, scale_idx(s), scale_idx(ctr)]));
    let e = ep(c, s);
    match guard(|| read_ctr(&e, ctr)) {
        Err(p) => rep.fail(&format!("ctr/panic/{}", p.class()), None, || format!("Epoch({c},{:?}).to_{:?}_nanoseconds() panicked: {}", s, ctr, p.msg)),
        Ok(g) => {
            // within the tolerance of the Ok/Err boundaries nothing is demanded
            if cnt.abs() <= tol || (cnt - NPC).abs() <= tol {
                return;
            }
            let fits = cnt >= 0 && cnt < NPC;
            match g {
                Ok(n) => {
                    if !fits || (n as i128 - cnt).abs() > tol {
                        rep.fail("ctr/to-value", None, || format!("Epoch({c},{:?}).to_{:?}_nanoseconds() = Ok({n}), count is {} (tol {})", s, ctr, cnt, tol));
                    }
                }
                Err(_) => {
                    if fits {
                        rep.fail("ctr/err-although-fits", None, || format!("Epoch({c},{:?}).to_{:?}_nanoseconds() = Err, count {} fits", s, ctr, cnt));
                    }
                }
            }
        }
    }
}

/// epoch of any uniform scale read through a GNSS counter
pub fn check_ctr_of(rep: &mut Rep, c: i128, s: TimeScale, ctr: TimeScale) {
    if !rep.tick() {
        return;
    }
    let t = c + zero_tai_ns(s);
    let cnt = t - zero_tai_ns(ctr);
    if cnt < 0 {
        rep.class("ctr/negative");
    }
    if cnt >= NPC {
        rep.class("ctr/beyond-one-century");
    }
    if s != ctr {
        rep.class("ctr/cross-scale");
    }
    rep.nt(h64(&[4, c as u64, (c >> 64) as u64, scale_idx(s), scale_idx(ctr)]));
    let e = ep(c, s);
    match guard(|| read_ctr(&e, ctr)) {
        Err(p) => rep.fail(&format!("ctr/panic/{}", p.class()), None, || format!("Epoch({c},{:?}).to_{:?}_nanoseconds() panicked: {}", s, ctr, p.msg)),
        Ok(g) => judge_ctr(rep, cnt, g, &|| format!("Epoch({c},{:?}).to_{:?}_nanoseconds()", s, ctr)),
    }
}

pub fn check_doy(rep: &mut Rep, y: i32, x: f64, s: TimeScale) {
    if !rep.tick() {
        return;
    }
    let ylen = if cal::is_leap(y as i64) { 366.0 } else { 365.0 };
    let mut nt = false;
    if x == 1.0 {
        rep.class("doy/first-day");
        nt = true;
    }
    if x > ylen + 1.0 - 1e-6 {
        rep.class("doy/near-year-end");
        nt = true;
    }
    if cal::is_leap(y as i64) && x >= 60.0 {
        rep.class("doy/leap-year");
        nt = true;
    }
    if (x - x.round()).abs() < 1e-6 {
        rep.class("doy/near-integer-day");
        nt = true;
    }
    if nt {
        rep.nt(h64(&[5, y as u64, x.to_bits(), scale_idx(s)]));
    }
    rep.sample("doy", || format!("from_day_of_year({y}, {}, {:?})", fmt_f64(x), s));
    match guard(|| {
        let e = Epoch::from_day_of_year(y, x, s);
        crate::props::c05::touch_built(&e);
        (e, e.year_days_of_year(), e.day_of_year(), e.duration_in_year())
    }) {
        Err(p) => rep.fail(&format!("doy/panic/{}", p.class()), None, || format!("from_day_of_year({y},{},{:?}) panicked: {} at {}", x, s, p.msg, p.loc)),
        Ok((e, (y2, d2), d3, diy)) => {
            // expected epoch: 1 Jan + trunc((x-1) days)
            let jan1 = count_of(&Fields { y: y as i64, m: 1, d: 1, h: 0, mi: 0, s: 0, ns: 0 }, s);
            let off = crate::props::c18::model_in(x - 1.0, hifitime::Unit::Day).unwrap();
            // the statement fixes the (year, day) read-back "to float precision", not the nanosecond at which a fractional
            // day is cut: the built epoch may differ from trunc((x-1) days) by the float precision of a day of year
            let slack: i128 = if x.fract() == 0.0 { 0 } else { (8.0 * flt::ulp(366.0) * NS_D as f64).ceil() as i128 + 1 };
            if e.time_scale != s || (count_d(e.duration) - (jan1 + off)).abs() > slack {
                rep.fail("doy/from-value", None, || format!("from_day_of_year({y},{},{:?}) = ({}, {:?}) want {} + {}", fmt_f64(x), s, count_d(e.duration), e.time_scale, jan1, off));
            }
            if x == 1.0 && count_d(e.duration) != jan1 {
                rep.fail("doy/day-one-is-jan-1", None, || format!("from_day_of_year({y}, 1.0, {:?}) = {} want {}", s, count_d(e.duration), jan1));
            }
            let tol = 8.0 * flt::ulp(366.0) + 1.0 / NS_D as f64 * 1.5;
            if y2 != y || (d2 - x).abs() > tol || d3 != d2 {
                rep.fail("doy/read-back", None, || format!("from_day_of_year({y},{},{:?}).year_days_of_year() = ({y2}, {}) ; day_of_year {}", fmt_f64(x), s, fmt_f64(d2), fmt_f64(d3)));
            }
            if (count_d(diy) - off).abs() > slack {
                rep.fail("doy/duration-in-year", None, || format!("from_day_of_year({y},{},{:?}).duration_in_year() = {} want {}", fmt_f64(x), s, count_d(diy), off));
            }
        }
    }
}

pub fn run(cfg: &Cfg, rep: &mut Rep) {
    let sh = rep.shard as usize;
    let n = NSHARDS as usize;
    let w = World::new(crate::model::dynm::NAIF);
    let wmax = (MAX_NS / NS_W) as u32;
    let mut i = 0usize;
    let weeks = [0u32, 1, 2, 1023, 1024, 1025, 2047, 2048, 2049, 4096, 65535, 65536, wmax - 1, wmax, wmax / 2];
    let nss = [0u64, 1, NS_W as u64 - 1, NS_W as u64, NS_W as u64 + 1, NS_D as u64, 2 * NS_W as u64 + 5, NPC as u64 - 1, NPC as u64, NPC as u64 + 1, u64::MAX, u64::MAX - 1, 1 << 63];
    for s in SCALES {
        if cfg.fuzz {
            break;
        }
        for &w in &weeks {
            for &ns in &nss {
                i += 1;
                if i % n == sh {
                    check_tow(rep, w, ns, s);
                }
            }
        }
    }
    // totals around the binary and decimal thresholds a 64-bit shortcut could trip on, split as (week, ns of week) with the
    // nanoseconds both below one week (canonical) and far above it
    for tot in [1i128 << 63, 1i128 << 64, (1i128 << 64) - 1, 1_000_000_000_000_000_000, 10_000_000_000_000_000_000, NPC, 2 * NPC, 6 * NPC, 1i128 << 53, 1i128 << 62] {
        if cfg.fuzz {
            break;
        }
        for dlt in [-NS_W, -NS_D, -NS_S, -1i128, 0, 1, NS_S, NS_D, 3 * NS_D, 4 * NS_D, NS_W - 1, NS_W, NS_W + NS_D] {
            let t = tot + dlt;
            for s in SCALES {
                i += 1;
                if i % n != sh {
                    continue;
                }
                let wk = t / NS_W;
                check_tow(rep, wk as u32, (t % NS_W) as u64, s);
                if wk >= 1 {
                    check_tow(rep, (wk - 1) as u32, (t % NS_W + NS_W) as u64, s);
                }
                check_tow_of(rep, t, s);
                if (t as u128) <= u64::MAX as u128 {
                    check_tow(rep, 0, t as u64, s);
                }
            }
        }
    }
    for s in CTR {
        if cfg.fuzz {
            break;
        }
        for &c in &nss {
            i += 1;
            if i % n == sh {
                check_ctr_from(rep, c, s);
            }
        }
        for su in UNIFORM {
            for d in [-2i128, -1, 0, 1, 2, NPC - 1, NPC, NPC + 1, -NPC, 2 * NPC, NS_S] {
                i += 1;
                if i % n == sh {
                    // epoch in su whose counter reading in s is d
                    let c = d + zero_tai_ns(s) - zero_tai_ns(su);
                    check_ctr_of(rep, c, su, s);
                }
            }
        }
    }
    for y in 1..=9999i32 {
        i += 1;
        if i % n == sh && !cfg.fuzz {
            let s = SCALES[(y % 9) as usize];
            check_doy(rep, y, 1.0, s);
            let ylen = if cal::is_leap(y as i64) { 366.0 } else { 365.0 };
            check_doy(rep, y, ylen + 1.0 - 1e-9, s);
            check_doy(rep, y, ylen, SCALES[((y + 4) % 9) as usize]);
            check_doy(rep, y, 60.0, SCALES[((y + 2) % 9) as usize]);
        }
    }
    // every whole day number of the year and its neighbours in the last place (the instants a few nanoseconds either side of
    // midnight, which is as close as a double gets): where a split into whole days and time of day disagrees with itself
    if !cfg.fuzz {
        for k in 1..=366u32 {
            for (j, y) in [1i32, 1972, 2024, 1899, 9996].into_iter().enumerate() {
                i += 1;
                if i % n != sh {
                    continue;
                }
                let ylen = if cal::is_leap(y as i64) { 366 } else { 365 };
                if k > ylen {
                    continue;
                }
                let kf = k as f64;
                let s = SCALES[(k as usize + j) % 9];
                rep.class("doy/whole-day-and-its-neighbours");
                for x in [kf, f64::from_bits(kf.to_bits() - 1), f64::from_bits(kf.to_bits() + 1), kf - 1e-13, kf + 1e-13, kf + 1.0 - 1e-9, kf + 0.5] {
                    if x >= 1.0 && x < ylen as f64 + 1.0 {
                        check_doy(rep, y, x, s);
                    }
                }
            }
        }
    }
    let mut r = Rng::new(cfg.seed, 0x2000 + sh as u64);
    let nrand = cfg.budget(4_000_000);
    for _ in 0..nrand {
        let s = gen::rand_scale(&mut r);
        match r.below(5) {
            0 => {
                let w = match r.below(5) {
                    0 => r.below(3000) as u32,
                    // a week number that aliases an ordinary one modulo 2^16 / 2^10 (GPS roll-over arithmetic)
                    4 => ((r.below(3000) as u32) + (1 + r.below(2) as u32) * *r.pick(&[1u32 << 16, 1 << 10, 1 << 13])).min(wmax),
                    1 => *r.pick(&weeks),
                    _ => r.below(wmax as u64 + 1) as u32,
                };
                if r.chance(1, 6) {
                    // random week with the nanoseconds placed so that the total lands next to 2^63 / 2^64 ns
                    let tot = (if r.bool() { 1i128 << 63 } else { 1i128 << 64 }) + r.range_i128(-3 * NS_W, 3 * NS_W);
                    let wk = r.range_i128(((tot - u64::MAX as i128).max(0) + NS_W - 1) / NS_W, tot / NS_W);
                    check_tow(rep, wk as u32, (tot - wk * NS_W) as u64, s);
                }
                let ns = match r.below(5) {
                    0 => r.below(NS_W as u64),
                    // nanoseconds of week that alias a small value modulo 2^32 / 2^53
                    4 => (r.below(1 << 20) + (1 + r.below(3)) * *r.pick(&[1u64 << 32, 1 << 53, 1 << 48])) % (3 * NS_W as u64),
                    1 => *r.pick(&nss),
                    2 => r.u64(),
                    _ => r.below(3 * NS_W as u64),
                };
                check_tow(rep, w, ns, s);
            }
            1 => {
                let c = match r.below(3) {
                    0 => r.range_i128(0, 2 * NPC),
                    1 => r.range_i128(0, MAX_NS - 1),
                    _ => r.range_i128(0, 3000) * NS_W + r.range_i64(-2, 2) as i128,
                };
                check_tow_of(rep, c, s);
            }
            2 => {
                let v = match r.below(4) {
                    0 => r.u64(),
                    1 => r.below(NPC as u64),
                    2 => NPC as u64 + r.below(5) - 2,
                    _ => *r.pick(&nss),
                };
                check_ctr_from(rep, v, *r.pick(&CTR));
            }
            3 => {
                let ctr = *r.pick(&CTR);
                let su = *r.pick(&UNIFORM);
                let d = match r.below(4) {
                    0 => r.range_i128(-NPC, 2 * NPC),
                    1 => r.range_i64(-5, 5) as i128 + *r.pick(&[0, NPC]),
                    2 => gen::rand_count_within(&mut r, 50 * NPC),
                    _ => r.range_i128(0, NPC - 1),
                };
                check_ctr_of(rep, d + zero_tai_ns(ctr) - zero_tai_ns(su), su, ctr);
                // the same instant held in UTC / ET / TDB
                let t = d + zero_tai_ns(ctr);
                let hs = *r.pick(&[TimeScale::UTC, TimeScale::UTC, TimeScale::ET, TimeScale::TDB]);
                if let Some(c2) = w.from_tai(t, hs) {
                    if !(hs == TimeScale::UTC && w.in_f12b_window(t)) {
                        check_ctr_of_any(rep, &w, c2, hs, ctr);
                    }
                }
            }
            _ => {
                let y = r.range_i64(1, 9999) as i32;
                let ylen = if cal::is_leap(y as i64) { 366.0 } else { 365.0 };
                let x = match r.below(5) {
                    0 => 1.0 + r.below(ylen as u64) as f64,
                    1 => 1.0 + r.f64_unit() * ylen,
                    2 => 1.0 + r.below(ylen as u64) as f64 + *r.pick(&[1e-9, -1e-9, 0.5, 1e-13, 0.999999999]),
                    3 => ylen + 1.0 - r.f64_unit() * 1e-6,
                    _ => 1.0 + r.f64_unit() * 1e-6,
                };
                if x >= 1.0 && x < ylen + 1.0 {
                    check_doy(rep, y, x, s);
                }
            }
        }
    }
}
