//! C05 TAI/TT/GPST/QZSST/GST/BDT conversions are exact, constant-offset and invertible.
use crate::core::*;
use crate::gen;
use crate::model::dur::*;
use crate::model::scale::*;
use hifitime::{Duration, Epoch, TimeScale};

pub fn meta() -> Meta {
    Meta {
        rule: "events = for one reading d in a uniform scale s1: to_time_scale(s2) for all six s2 (36 ordered pairs per sample), the round trip back, to(own), commutation with + x, the named accessors (to_{tai,tt,gpst,gst,bdt,qzsst}_duration, to_duration_in_time_scale, to_duration_since_j1900), the from_*_duration constructors and TimeScale::reference_epoch. Expected: count(result) == d + zero_TAI(s1) - zero_TAI(s2) exactly with zero_TAI derived from the stated civil reference dates through M-CAL (not from the source constants); scale tag == s2. Generation: reading lattice (zero, century/day/year boundaries, leap-second instants, year 1/9999 limits) + stratified random within +-10000 y + random out to +-32000 centuries short of saturation. Non-trivial = s1 != s2, negative reading, reading beyond +-1 century, result crossing a century boundary; distinct = distinct (d, s1) hashes among those. Round 6: identity on the own scale through to_time_scale / named accessor / to_duration_in_time_scale at every count (pivot out of range included); from_tai_parts with a nanosecond field of one to five extra centuries. Rounds 7-9: readings in the first / last three centuries of the range; the six targets are asked for starting at a position that rotates with the reading. Round 10: commutation also with the duration that lands the sum on a whole century of the target / source scale; both sides compared by parts.",
        assumptions: &["M-CAL closed-form day counts"],
        mandatory: &["conv/cross-scale", "conv/negative-reading", "conv/beyond-one-century", "conv/far-range", "ref-epoch"],
        thorough_scale: 50,
        exhaustive_part: "all 36 ordered pairs of the six uniform scales for every sampled reading",
    }
}

pub fn ep(c: i128, s: TimeScale) -> Epoch {
    let e = Epoch::from_duration(mk(c), s);
    pretouch(&e, c);
    LAST_BUILT.with(|l| l.set(Some(e)));
    e
}

/// The same history diversity for an epoch that a *library constructor* returned (time of week, day of year, Julian date,
/// calendar fields ...): called by the monitor between building the epoch and reading it.
pub fn touch_built(e: &Epoch) {
    pretouch(e, count_d(e.duration));
    LAST_BUILT.with(|l| l.set(Some(*e)));
}

thread_local! {
    /// the epoch `ep` built before this one on this thread: the partner of the two-operand touches (monitors build the left
    /// operand of a difference / comparison first and the right one next, so this is the operand the judged call will meet)
    static LAST_BUILT: std::cell::Cell<Option<Epoch>> = const { std::cell::Cell::new(None) };
}

/// History diversity for state keyed on the value in hand: one epoch in 32 (chosen by a hash of its count, so the same
/// epochs in every run) is first *touched* through read-only accessors that no monitor judges at this point - the SOFA
/// and IERS variants of the leap-second lookup, the calendar, weekday and day-of-year readers, a conversion to every scale -
/// before the monitor that asked for the epoch uses it. The library keeps no state between calls today, so this changes
/// nothing on the unchanged tree; a memo of "the entry / year / day that matched last" which forgets part of its key
/// (the iers-only flag, the time scale, the sign) answers the monitored call from what the touch left behind.
/// A provider with another table (the IERS list as it stood after its tenth entry, July 1977): used by `pretouch` only, so that a
/// memo of the leap-second lookup which forgets *which table* it was learnt from is poisoned for everything after 1977.
#[derive(Clone)]
pub struct OutdatedTable {
    data: Vec<hifitime::leap_seconds::LeapSecond>,
    pos: usize,
}
impl OutdatedTable {
    pub fn new() -> Self {
        Self::with_len(10)
    }
    /// the IERS list as it stood after its n-th entry (0: an empty table, 26: the 2014 edition)
    pub fn with_len(n: usize) -> Self {
        let data = crate::model::leap::table().iter().take(n).map(|&(ts, d)| hifitime::leap_seconds::LeapSecond::new(ts as f64, d as f64, true)).collect();
        OutdatedTable { data, pos: 0 }
    }
}
impl Default for OutdatedTable {
    fn default() -> Self {
        Self::new()
    }
}
impl Iterator for OutdatedTable {
    type Item = hifitime::leap_seconds::LeapSecond;
    fn next(&mut self) -> Option<Self::Item> {
        self.pos += 1;
        self.data.get(self.pos - 1).copied()
    }
}
impl DoubleEndedIterator for OutdatedTable {
    fn next_back(&mut self) -> Option<Self::Item> {
        if self.pos >= self.data.len() {
            None
        } else {
            self.pos += 1;
            self.data.get(self.data.len() - self.pos).copied()
        }
    }
}
impl std::ops::Index<usize> for OutdatedTable {
    type Output = hifitime::leap_seconds::LeapSecond;
    fn index(&self, i: usize) -> &Self::Output {
        &self.data[i]
    }
}
impl hifitime::leap_seconds::LeapSecondProvider for OutdatedTable {}

pub fn pretouch(e: &Epoch, c: i128) {
    let h = h64(&[c as u64, (c >> 64) as u64, 0x70c4]);
    if h >> 59 != 0 {
        return;
    }
    // which epoch is touched: the one in hand, its mirror image about the scale's zero (a memo keyed with `Duration ==`, which
    // holds between x and -x within a century, answers for the wrong side), or a neighbour an hour / a year away (a memo of
    // "the table entry / year that matched last" tried first with a cheaper, less exact comparison)
    // (round 8: more distances - a warm start "when the previous call was close" has its own idea of close: seconds, minutes,
    // just under an hour, the same day; and the near-mirror -c - 1, the same nanoseconds in the next century)
    let variant = (h >> 8) % 18;
    let tc = match variant {
        // a "never" / "always" sentinel next to a bound of the range (the touch itself hits the bound and is outside every
        // domain; what it leaves behind must not reach the ordinary epoch that follows)
        16 => MAX_NS - (h >> 30) as i128 % (110 * 365 * NS_D),
        17 => MIN_NS + (h >> 30) as i128 % (110 * 365 * NS_D),
        0 | 1 => c,
        2 | 3 => -c,
        4 => c + NS_H,
        5 => c - NS_H,
        6 => c + 400 * NS_D,
        7 => c + 20 * NS_MIN,
        8 => c - 20 * NS_MIN,
        9 => c + 1,
        10 => c - 1,
        11 => c + NS_S,
        12 => c - 30 * NS_S,
        13 => c + NS_D / 3,
        14 => -c - 1,
        _ => c + NPC,
    };
    if variant < 16 && !(MIN_NS + NPC..=MAX_NS - NPC).contains(&tc) {
        return;
    }
    let e = Epoch::from_duration(mk(tc), e.time_scale);
    // the order of the conversions rotates, so that "the last conversion made" has every target in turn
    let rot = ((h >> 16) % 9) as usize;
    // another table is consulted first (it finds any memo of the built-in table cold for this instant and leaves its own
    // answer behind), last, or not at all; the other table is the list of 1977, of 2014, or an empty one
    let other = move || OutdatedTable::with_len([10usize, 26, 0, 10][((h >> 24) % 4) as usize]);
    let _ = guard(move || {
        let a0 = if rot % 3 == 0 { (e.leap_seconds_with(true, other()), e.leap_seconds_with(false, other())) } else { (None, None) };
        let a = (a0, e.leap_seconds(false), e.leap_seconds(true), e.leap_seconds_iers(), if rot % 3 == 1 { e.leap_seconds_with(true, other()) } else { None });
        // (the calendar readers loop over the years since 1900: skipped for the sentinels three million years away)
        let b = if variant < 16 { Some((e.to_gregorian_utc(), e.to_gregorian_tai(), e.weekday(), e.weekday_utc(), e.day_of_year(), e.year(), e.month_name())) } else { None };
        let v = (e.to_unix_seconds(), e.to_mjd_utc_days(), e.to_jde_et_days(), e.to_jde_tdb_days());
        let mut k = 0i128;
        for i in 0..9 {
            let s = crate::model::scale::SCALES[(i + rot) % 9];
            k += e.to_duration_in_time_scale(s).to_parts().1 as i128;
        }
        let f = if variant < 16 { format!("{e}").len() } else { 0 };
        // two-operand calls with the epoch built just before as the partner: a memo of "the right operand re-expressed last"
        // is left holding the touched epoch's answer for the very pair the monitor is about to judge
        if let Some(p) = LAST_BUILT.with(|l| l.get()) {
            // (which direction comes last rotates: a one-entry memo keeps the last call only)
            if rot % 2 == 0 {
                std::hint::black_box((e - p, e == p, e.cmp(&p), e.partial_cmp(&p), e < p, e.min(p), p - e, p == e, p.cmp(&e), p.partial_cmp(&e), p < e, p.min(e)));
            } else {
                std::hint::black_box((p - e, p == e, p.cmp(&e), p.partial_cmp(&e), p < e, p.max(e), e - p, e == p, e.cmp(&p), e.partial_cmp(&p), e < p, e.max(p)));
            }
        }
        std::hint::black_box((a, b, v, k, f));
    });
}

fn named(e: &Epoch, s: TimeScale) -> Duration {
    match s {
        TimeScale::TAI => e.to_tai_duration(),
        TimeScale::TT => e.to_tt_duration(),
        TimeScale::GPST => e.to_gpst_duration(),
        TimeScale::GST => e.to_gst_duration(),
        TimeScale::BDT => e.to_bdt_duration(),
        TimeScale::QZSST => e.to_qzsst_duration(),
        _ => unreachable!(),
    }
}
fn ctor(d: Duration, s: TimeScale) -> Epoch {
    match s {
        TimeScale::TAI => Epoch::from_tai_duration(d),
        TimeScale::TT => Epoch::from_tt_duration(d),
        TimeScale::GPST => Epoch::from_gpst_duration(d),
        TimeScale::GST => Epoch::from_gst_duration(d),
        TimeScale::BDT => Epoch::from_bdt_duration(d),
        TimeScale::QZSST => Epoch::from_qzsst_duration(d),
        _ => unreachable!(),
    }
}

/// Representable: "no bound is hit" as long as the reading, its TAI pivot and the result all are (the bounds
/// themselves included: a count of exactly MAX or MIN is a value like any other when nothing saturated to get there).
fn in_bounds(v: i128) -> bool {
    (MIN_NS..=MAX_NS).contains(&v)
}

pub fn check(rep: &mut Rep, d: i128, s1: TimeScale, x: i128) {
    if !rep.tick() {
        return;
    }
    let t = d + zero_tai_ns(s1);
    let mut nt = false;
    if d < 0 {
        rep.class("conv/negative-reading");
        nt = true;
    }
    if d.abs() > NPC {
        rep.class("conv/beyond-one-century");
        nt = true;
    }
    if d.abs() > 101 * NPC {
        rep.class("conv/far-range");
        nt = true;
    }
    if nt {
        rep.nt(h64(&[d as u64, (d >> 64) as u64, scale_idx(s1)]));
    }
    rep.sample("conv", || format!("reading {} ns in {:?} (TAI count {})", d, s1, t));
    let e = ep(d, s1);
    // constructor
    match guard(|| ctor(mk(d), s1)) {
        Err(p) => rep.fail(&format!("ctor/panic/{}", p.class()), None, || format!("from_*_duration({d}, {:?}) panicked {}", s1, p.msg)),
        Ok(g) => {
            if g.time_scale != s1 || count_d(g.duration) != d {
                rep.fail("ctor/value", None, || format!("from_{:?}_duration({d}) = ({}, {:?})", s1, fmt_parts(g.duration.to_parts()), g.time_scale));
            }
        }
    }
    if in_bounds(t) {
        match guard(|| (e.to_tai_parts(), Epoch::from_tai_parts(canon(t).0, canon(t).1), Epoch::from_duration(mk(d), s1), e.to_tai_duration())) {
            Err(p) => rep.fail(&format!("parts/panic/{}", p.class()), None, || format!("to_tai_parts/from_tai_parts on ({d},{:?}) panicked {}", s1, p.msg)),
            Ok((tp, ftp, fd, td)) => {
                if count(tp) != t || count_d(td) != t {
                    rep.fail("parts/to_tai_parts", None, || format!("({d},{:?}).to_tai_parts() = {} want count {}", s1, fmt_parts(tp), t));
                }
                if ftp.time_scale != TimeScale::TAI || count_d(ftp.duration) != t {
                    rep.fail("parts/from_tai_parts", None, || format!("from_tai_parts{:?} = ({}, {:?})", canon(t), count_d(ftp.duration), ftp.time_scale));
                }
                if fd.time_scale != s1 || count_d(fd.duration) != d {
                    rep.fail("parts/from_duration", None, || format!("from_duration({d},{:?}) = ({}, {:?})", s1, count_d(fd.duration), fd.time_scale));
                }
            }
        }
    }
    // "converting to the scale an epoch is already in is the identity": no pivot is involved, so this holds for every
    // representable count, the bounds and the counts whose TAI pivot is out of range included - through every entry point
    match guard(|| (e.to_time_scale(s1), named(&e, s1), e.to_duration_in_time_scale(s1))) {
        Err(p) => rep.fail(&format!("identity/panic/{}", p.class()), None, || format!("({d},{:?}) to its own scale panicked: {} at {}", s1, p.msg, p.loc)),
        Ok((r, nm, gen)) => {
            if !in_bounds(t) {
                rep.class("identity/pivot-out-of-range");
            }
            for (name, got) in [("to_time_scale", r.duration), ("named accessor", nm), ("to_duration_in_time_scale", gen)] {
                if got.to_parts() != canon(d) || r.time_scale != s1 {
                    rep.fail("identity/value", None, || format!("({d},{:?}) read in its own scale through {name} = {} (tag {:?}), want {}", s1, fmt_parts(got.to_parts()), r.time_scale, fmt_parts(canon(d))));
                }
            }
        }
    }
    // the raw-parts constructor with a nanosecond field of one century or more denotes the same instant
    if in_bounds(t) {
        let (cc, nn) = canon(t);
        for k in 1..=5i128 {
            let raw_ns = nn as i128 + k * NPC;
            if cc as i128 - k < i16::MIN as i128 || raw_ns > u64::MAX as i128 || t == MAX_NS {
                break;
            }
            match guard(|| Epoch::from_tai_parts((cc as i128 - k) as i16, raw_ns as u64)) {
                Err(p) => rep.fail(&format!("parts/panic/{}", p.class()), None, || format!("from_tai_parts({}, {}) panicked {}", cc as i128 - k, raw_ns, p.msg)),
                Ok(g) => {
                    rep.class("parts/raw-nanoseconds-beyond-one-century");
                    if g.duration.to_parts() != (cc, nn) || g.time_scale != TimeScale::TAI || g.to_tai_duration().to_parts() != (cc, nn) || g.to_tai_parts() != (cc, nn) {
                        rep.fail("parts/from_tai_parts-raw", None, || format!("from_tai_parts({}, {}) = {} (to_tai_duration {}), want {}", cc as i128 - k, raw_ns, fmt_parts(g.duration.to_parts()), fmt_parts(g.to_tai_duration().to_parts()), fmt_parts((cc, nn))));
                    }
                }
            }
        }
    }
    // (the target that is asked for first rotates with the reading: "the pair requested last" - by the pre-touch, by the
    // previous event - is then followed by the same pair or by another one, in every combination)
    let start = (h64(&[d as u64, (d >> 64) as u64, 0x5ca1e]) % 6) as usize;
    for s2 in (0..6).map(|i| UNIFORM[(i + start) % 6]) {
        let want = t - zero_tai_ns(s2);
        if !in_bounds(want) || !in_bounds(t) {
            continue;
        }
        if want == MAX_NS || want == MIN_NS || t == MAX_NS || t == MIN_NS || d == MAX_NS || d == MIN_NS {
            rep.class("conv/exactly-at-a-bound");
        }
        if s1 != s2 {
            rep.class("conv/cross-scale");
        }
        rep.log_event("conv", || format!("\"d\":\"{}\",\"s1\":\"{:?}\",\"s2\":\"{:?}\",\"want\":\"{}\"", d, s1, s2, want));
        let det = || format!("({}, {:?}).to_time_scale({:?})", d, s1, s2);
        match guard(|| {
            let r = e.to_time_scale(s2);
            let back = r.to_time_scale(s1);
            let nm = named(&e, s2);
            let gen = e.to_duration_in_time_scale(s2);
            let plus = (e + mk(x)).to_time_scale(s2);
            let plus2 = e.to_time_scale(s2) + mk(x);
            (r, back, nm, gen, plus, plus2, e.to_duration_since_j1900())
        }) {
            Err(p) => rep.fail(&format!("convert/panic/{}", p.class()), None, || format!("{} panicked: {} at {}", det(), p.msg, p.loc)),
            Ok((r, back, nm, gen, plus, plus2, j1900)) => {
                if r.time_scale != s2 {
                    rep.fail("convert/scale-tag", None, || format!("{} tagged {:?}", det(), r.time_scale));
                }
                let gp = r.duration.to_parts();
                if !is_canonical(gp) || count(gp) != want {
                    rep.fail("convert/value", None, || format!("{} = {} (count {}), want count {} [off by {} ns]", det(), fmt_parts(gp), count(gp), want, count(gp) - want));
                }
                if back.time_scale != s1 || back.duration.to_parts() != e.duration.to_parts() {
                    rep.fail("convert/round-trip", None, || format!("{} and back = ({}, {:?})", det(), fmt_parts(back.duration.to_parts()), back.time_scale));
                }
                if s1 == s2 && (r.duration.to_parts() != e.duration.to_parts()) {
                    rep.fail("convert/identity", None, det);
                }
                if nm.to_parts() != gp || gen.to_parts() != gp {
                    rep.fail("convert/named-accessor", None, || format!("{}: named accessor {} generic {} to_time_scale {}", det(), fmt_parts(nm.to_parts()), fmt_parts(gen.to_parts()), fmt_parts(gp)));
                }
                if count_d(j1900) != t {
                    rep.fail("convert/since-j1900", None, || format!("({}, {:?}).to_duration_since_j1900() = {} want {}", d, s1, count_d(j1900), t));
                }
                let wp = want + x;
                if in_bounds(wp) && in_bounds(d + x) && in_bounds(t + x) {
                    // (both sides are epochs: "identical" includes the one observable form of the count)
                    if plus.duration.to_parts() != canon(wp) || plus2.duration.to_parts() != canon(wp) || plus.time_scale != s2 || plus2.time_scale != s2 {
                        rep.fail("convert/commutes-with-add", None, || format!("{} with +{}: (e+x).to = {} ; e.to+x = {} ; want {} = {}", det(), x, fmt_parts(plus.duration.to_parts()), fmt_parts(plus2.duration.to_parts()), wp, fmt_parts(canon(wp))));
                    }
                }
                // ... and with the duration that makes the sum land exactly on a whole century of the target scale, and on
                // one of the source scale (where a carry has to happen on one side of the equation and not on the other)
                for land in [want.div_euclid(NPC) * NPC + NPC - want, d.div_euclid(NPC) * NPC + NPC - d, want.div_euclid(NPC) * NPC - want] {
                    let wl = want + land;
                    if !(in_bounds(wl) && in_bounds(d + land) && in_bounds(t + land)) {
                        continue;
                    }
                    match guard(|| ((e + mk(land)).to_time_scale(s2), e.to_time_scale(s2) + mk(land), (e + mk(land)).to_time_scale(s1), named(&(e + mk(land)), s2))) {
                        Err(p) => rep.fail(&format!("convert/panic/{}", p.class()), None, || format!("{} with +{land} panicked: {} at {}", det(), p.msg, p.loc)),
                        Ok((a, b, own, nm2)) => {
                            rep.class("conv/sum-lands-on-a-century");
                            if a.duration.to_parts() != canon(wl) || b.duration.to_parts() != canon(wl) || own.duration.to_parts() != canon(d + land) || nm2.to_parts() != canon(wl) {
                                rep.fail("convert/commutes-with-add", None, || format!("{} with +{land} (century landing): (e+x).to = {} ; e.to+x = {} ; (e+x) in its own scale {} ; named accessor {} ; want {}", det(), fmt_parts(a.duration.to_parts()), fmt_parts(b.duration.to_parts()), fmt_parts(own.duration.to_parts()), fmt_parts(nm2.to_parts()), fmt_parts(canon(wl))));
                            }
                        }
                    }
                }
            }
        }
    }
}

/// float-seconds / float-days constructors of each scale (whole values: exact by C18)
fn check_float_ctors(rep: &mut Rep, secs: i64, s: TimeScale) {
    if !rep.tick() {
        return;
    }
    rep.class("ctor/float-seconds-days");
    let x = secs as f64;
    let days = (secs % 40_000) as f64;
    match guard(|| match s {
        TimeScale::TAI => (Epoch::from_tai_seconds(x), Epoch::from_tai_days(days)),
        TimeScale::TT => (Epoch::from_tt_seconds(x), Epoch::from_tt_duration(days * hifitime::Unit::Day)),
        TimeScale::GPST => (Epoch::from_gpst_seconds(x), Epoch::from_gpst_days(days)),
        TimeScale::QZSST => (Epoch::from_qzsst_seconds(x), Epoch::from_qzsst_days(days)),
        TimeScale::GST => (Epoch::from_gst_seconds(x), Epoch::from_gst_days(days)),
        TimeScale::BDT => (Epoch::from_bdt_seconds(x), Epoch::from_bdt_days(days)),
        _ => (Epoch::from_utc_seconds(x), Epoch::from_utc_days(days)),
    }) {
        Err(p) => rep.fail(&format!("float-ctor/panic/{}", p.class()), None, || format!("from_{:?}_seconds({x}) panicked {}", s, p.msg)),
        Ok((a, b)) => {
            if a.time_scale != s || count_d(a.duration) != secs as i128 * NS_S {
                rep.fail("float-ctor/seconds", None, || format!("from_{:?}_seconds({x}) = ({}, {:?})", s, count_d(a.duration), a.time_scale));
            }
            if b.time_scale != s || count_d(b.duration) != (secs % 40_000) as i128 * NS_D {
                rep.fail("float-ctor/days", None, || format!("from_{:?}_days({days}) = ({}, {:?})", s, count_d(b.duration), b.time_scale));
            }
        }
    }
}

fn check_ref(rep: &mut Rep) {
    for s in SCALES {
        if !rep.tick() {
            continue;
        }
        rep.class("ref-epoch");
        match guard(|| {
            let r = s.reference_epoch();
            (r, format!("{}", r))
        }) {
            Err(p) => rep.fail(&format!("ref-epoch/panic/{}", p.class()), None, || format!("{:?}.reference_epoch() panicked {}", s, p.msg)),
            Ok((r, txt)) => {
                let want_txt = match s {
                    TimeScale::TAI | TimeScale::TT | TimeScale::UTC => "1900-01-01T00:00:00",
                    TimeScale::ET | TimeScale::TDB => "2000-01-01T12:00:00",
                    TimeScale::GPST | TimeScale::QZSST => "1980-01-06T00:00:00",
                    TimeScale::GST => "1999-08-22T00:00:00",
                    TimeScale::BDT => "2006-01-01T00:00:00",
                    _ => "",
                };
                let want_txt = format!("{} {}", want_txt, crate::model::text::scale_name(s));
                if r.time_scale != s || count_d(r.duration) != 0 || txt != want_txt {
                    rep.fail("ref-epoch/value", None, || format!("{:?}.reference_epoch() = ({}, {:?}) printed {:?}, want zero printed {:?}", s, fmt_parts(r.duration.to_parts()), r.time_scale, txt, want_txt));
                }
            }
        }
    }
}

pub fn run(cfg: &Cfg, rep: &mut Rep) {
    let sh = rep.shard as usize;
    let n = NSHARDS as usize;
    let leap = crate::model::leap::table();
    if sh == 0 {
        check_ref(rep);
    }
    let mut i = 0;
    let dl = gen::dur_lattice();
    for s in UNIFORM {
        if cfg.fuzz {
            break;
        }
        for &d in gen::reading_lattice(s, &leap).iter() {
            i += 1;
            if i % n == sh {
                check(rep, d, s, NS_D + 1);
            }
        }
        for &d in dl.iter() {
            i += 1;
            if i % n == sh && d.abs() < MAX_NS - 2 * NPC {
                check(rep, d, s, -NS_S);
            }
        }
    }
    // readings whose own count, TAI pivot or converted count sits exactly on / next to a duration bound
    for s in UNIFORM {
        if cfg.fuzz {
            break;
        }
        for s2 in UNIFORM {
            for b in [MAX_NS, MIN_NS] {
                for k in [0i128, 1, 2, NS_S, 20 * NS_S, 33 * NS_S, NS_D] {
                    for d in [b, b - zero_tai_ns(s), b - zero_tai_ns(s) + zero_tai_ns(s2)] {
                        let d = if b > 0 { d - k } else { d + k };
                        i += 1;
                        if i % n == sh && in_bounds(d) {
                            check(rep, d, s, if b > 0 { -NS_S } else { NS_S });
                            check(rep, d, s, 0);
                        }
                    }
                }
            }
        }
    }
    // the integer nanosecond counters of the four GNSS scales are conversions too (C20 owns their error clause; the
    // value clause - zero point and offset of each scale - is C05's): full u64 range in, boundaries of one century out
    for (gi, g) in [TimeScale::GPST, TimeScale::QZSST, TimeScale::GST, TimeScale::BDT].into_iter().enumerate() {
        if cfg.fuzz {
            break;
        }
        for b in [0u64, 1, NPC as u64 - 1, NPC as u64, NPC as u64 + 1, 1 << 63, (1 << 63) - 1, u64::MAX, u64::MAX - 1, 2 * NPC as u64] {
            i += 1;
            if i % n == sh {
                super::c20::check_ctr_from(rep, b, g);
                for s in UNIFORM {
                    // the same instant held in another uniform scale
                    let c = b as i128 + zero_tai_ns(g) - zero_tai_ns(s);
                    super::c20::check_ctr_of(rep, c, s, g);
                    super::c20::check_ctr_of(rep, c - 1, s, g);
                }
            }
        }
        let _ = gi;
    }
    let mut r = Rng::new(cfg.seed, 0x0500 + sh as u64);
    let nrand = cfg.budget(1_500_000);
    let lats: Vec<Vec<i128>> = UNIFORM.iter().map(|s| gen::reading_lattice(*s, &leap)).collect();
    for _ in 0..nrand {
        let si = r.below(6) as usize;
        let s = UNIFORM[si];
        let d = match r.below(11) {
            0..=5 => gen::rand_reading(&mut r, s, &lats[si]),
            6..=7 => gen::rand_count_within(&mut r, 101 * NPC),
            // the first and last centuries of the range: the offsets between the scales (up to 106 years) are of the order of
            // the distance to the bound, so the order in which an implementation adds and subtracts them matters here and only
            // here (`check` judges a conversion whenever reading, TAI pivot and result are all representable)
            8 => {
                let off = r.range_i128(0, 3 * NPC);
                if r.bool() {
                    MIN_NS + off
                } else {
                    MAX_NS - off
                }
            }
            _ => gen::rand_count_within(&mut r, 32000 * NPC),
        };
        let x = gen::rand_count_within(&mut r, 200 * NPC);
        check(rep, d, s, x);
        let sc = *r.pick(&[TimeScale::TAI, TimeScale::TT, TimeScale::UTC, TimeScale::GPST, TimeScale::QZSST, TimeScale::GST, TimeScale::BDT]);
        check_float_ctors(rep, r.range_i64(-9_007_199, 9_007_199), sc);
        if r.chance(1, 8) {
            let g = *r.pick(&[TimeScale::GPST, TimeScale::QZSST, TimeScale::GST, TimeScale::BDT]);
            let nn = match r.below(3) {
                0 => r.u64(),
                1 => r.below(NPC as u64),
                _ => (1u64 << 63).wrapping_add(r.below(1 << 40)).wrapping_sub(1 << 39),
            };
            super::c20::check_ctr_from(rep, nn, g);
        }
    }
}
