//! C12 Epoch equality and ordering are chronological, whatever the time scales.
use crate::core::*;
use crate::gen;
use crate::model::dur::*;
use crate::model::scale::*;
use crate::props::c05::ep;
use hifitime::{Epoch, TimeScale};
use std::cmp::Ordering;

pub fn meta() -> Meta {
    Meta {
        rule: "events = all comparison operators (== != < <= > >= cmp partial_cmp), Epoch::min/max, Range::contains on one ordered pair of epochs in any of the 81 scale combinations, the same after converting the left operand to a third scale, and sort of vectors of mixed-scale epochs. Expected: the chronological order of the TAI instants they denote (M-SCALE/M-LEAP/M-DYN): exactly one of <,==,> holds and it is the chronological one, symmetric under operand swap, invariant under conversion, transitive (all pairs of each triple agree with the model order). Pairs with an ET/TDB operand in a different scale are judged only when more than 100 ns apart; ET/TDB-vs-UTC pairs within 100 ns of a UTC discontinuity are don't-care. Generation: same instant expressed in two scales, 1 ns apart, symmetric about a scale's reference epoch (+-d, d < 1 century), either side of every leap second (+-{1 ns..40 s}), random. Non-trivial = scales differ, same instant, 1 ns apart, mirrored about the reference, within 41 s of a leap second; distinct = distinct pair hashes among those. Round 6: Ord::clamp (and max(lo, min(x, hi)), x.max(lo).min(hi), Iterator::max/min/max_by/min_by_key) on triples in any scale combination; sorts repeated through sort_unstable, sort_by(partial_cmp), BTreeSet, binary_search; pairs anywhere in the representable range (two centuries inside the bounds).",
        assumptions: &["M-SCALE / M-LEAP / M-DYN"],
        mandatory: &["pair/cross-scale", "pair/same-instant", "pair/one-ns-apart", "pair/mirror-about-reference", "pair/near-leap-second", "pair/dyn", "convert/invariance", "sort/vector"],
        thorough_scale: 50,
        exhaustive_part: "all 81 scale combinations for every lattice instant x {same instant, +-1 ns}",
    }
}

pub fn check_pair(rep: &mut Rep, w: &World, ca: i128, sa: TimeScale, cb: i128, sb: TimeScale) {
    if !rep.tick() {
        return;
    }
    let (ta, tb) = (w.to_tai(ca, sa), w.to_tai(cb, sb));
    let dyn_mixed = sa != sb && (is_dyn(sa) || is_dyn(sb));
    if dyn_mixed {
        rep.class("pair/dyn");
        if (ta - tb).abs() <= 100 {
            rep.class("pair/dyn-within-100ns(dc)");
            return;
        }
        if (sa == TimeScale::UTC || sb == TimeScale::UTC) && (w.near_utc_discontinuity(ta, 100) || w.near_utc_discontinuity(tb, 100)) {
            return;
        }
    }
    let want = if sa == sb { ca.cmp(&cb) } else { ta.cmp(&tb) };
    if !is_dyn(sa) && !is_dyn(sb) {
        rep.log_event("ecmp", || format!("\"a\":\"{}\",\"sa\":\"{:?}\",\"b\":\"{}\",\"sb\":\"{:?}\",\"want\":{}", ca, sa, cb, sb, want as i32));
    }
    let mut nt = false;
    if sa != sb {
        rep.class("pair/cross-scale");
        nt = true;
    }
    if want == Ordering::Equal {
        rep.class("pair/same-instant");
        nt = true;
    } else if (ta - tb).abs() == 1 {
        rep.class("pair/one-ns-apart");
        nt = true;
    }
    if sa == sb && ca == -cb && ca != 0 && ca.abs() < NPC {
        rep.class("pair/mirror-about-reference");
        nt = true;
    }
    if w.leap.iter().any(|&(ts, _)| (ta - ts as i128 * NS_S).abs() < 80 * NS_S) {
        rep.class("pair/near-leap-second");
        nt = true;
    }
    if nt {
        rep.nt(h64(&[ca as u64, (ca >> 64) as u64, scale_idx(sa), cb as u64, (cb >> 64) as u64, scale_idx(sb)]));
    }
    rep.sample("pair", || format!("Epoch({},{:?}) vs Epoch({},{:?}) => {:?}", ca, sa, cb, sb, want));
    let (a, b) = (ep(ca, sa), ep(cb, sb));
    let det = || format!("Epoch({},{:?}) vs Epoch({},{:?}) [TAI instants {} vs {}]", ca, sa, cb, sb, ta, tb);
    // F12b deformation: `a op b` re-expresses b in a's scale; with a in UTC and b's instant in the dAT window this is off
    // Returns the orderings consistent with the deformation (several when an ET/TDB operand makes the
    // deformed readings indistinguishable within 100 ns).
    let f12_cmp = |left_c: i128, left_s: TimeScale, right_t: i128, right_s: TimeScale| -> Vec<Ordering> {
        if left_s == TimeScale::UTC && right_s != TimeScale::UTC && w.in_f12b_window(right_t) {
            let r = w.from_tai_f12b(right_t, TimeScale::UTC);
            if is_dyn(right_s) && (left_c - r).abs() <= 100 {
                vec![Ordering::Less, Ordering::Equal, Ordering::Greater]
            } else {
                vec![left_c.cmp(&r)]
            }
        } else {
            vec![]
        }
    };
    match guard(|| (a == b, a != b, a < b, a <= b, a > b, a >= b, a.cmp(&b), a.partial_cmp(&b), b.cmp(&a), b == a, Epoch::min(&a, b), Epoch::max(&a, b), (a..b).contains(&a), (b..a).contains(&a))) {
        Err(p) => rep.fail(&format!("cmp/panic/{}", p.class()), None, || format!("{} panicked: {} at {}", det(), p.msg, p.loc)),
        Ok((eq, ne, lt, le, gt, ge, c, pc, rc, req, mn, mx, in_ab, in_ba)) => {
            let dev = f12_cmp(ca, sa, tb, sb);
            let dev_rev = f12_cmp(cb, sb, ta, sa);
            let fid = |obs: Ordering, d: &Vec<Ordering>| if d.contains(&obs) { Some("F12b-tai-to-utc-frame") } else { None };
            if c != want || pc != Some(want) {
                rep.fail("cmp/value", fid(c, &dev), || format!("{}: cmp = {:?} partial_cmp = {:?}, chronological order is {:?}", det(), c, pc, want));
            }
            if rc != want.reverse() {
                rep.fail("cmp/swap", fid(rc, &dev_rev), || format!("{}: swapped cmp = {:?}, want {:?}", det(), rc, want.reverse()));
            }
            let rel_ok = lt == (c == Ordering::Less) && gt == (c == Ordering::Greater) && le == (c != Ordering::Greater) && ge == (c != Ordering::Less);
            if !rel_ok {
                rep.fail("relational/inconsistent-with-cmp", None, || format!("{}: < {} <= {} > {} >= {} but cmp {:?}", det(), lt, le, gt, ge, c));
            }
            if eq == ne {
                rep.fail("eq/ne-inconsistent", None, || format!("{}: == {} != {}", det(), eq, ne));
            }
            if eq != (want == Ordering::Equal) || req != eq {
                // == converts the UTC operand into the other scale (exact), so F12b does not apply
                rep.fail("eq/value", None, || format!("{}: == is {} (swapped {}), instants {}", det(), eq, req, if want == Ordering::Equal { "are the same" } else { "differ" }));
            }
            // min / max return the chronologically earlier / later operand
            let (wmn, wmx) = if want == Ordering::Greater { (tb, ta) } else { (ta, tb) };
            let tmn = w.to_tai(count_d(mn.duration), mn.time_scale);
            let tmx = w.to_tai(count_d(mx.duration), mx.time_scale);
            if want != Ordering::Equal && (tmn != wmn || tmx != wmx) {
                // Epoch::min/max are `if self < other` / `if self > other`: deformed exactly when cmp is
                let f = if !dev.is_empty() && dev.contains(&c) && c != want { Some("F12b-tai-to-utc-frame") } else { None };
                rep.fail("minmax/value", f, || format!("{}: min -> instant {} max -> instant {}", det(), tmn, tmx));
            }
            // a..b contains a iff a < b ; b..a contains a iff b <= a < a: never
            if in_ab != (c == Ordering::Less) || in_ba {
                rep.fail("range/contains", None, || format!("{}: (a..b).contains(a) = {}, (b..a).contains(a) = {}", det(), in_ab, in_ba));
            }
        }
    }
}

pub fn check_convert(rep: &mut Rep, w: &World, ca: i128, sa: TimeScale, cb: i128, sb: TimeScale, s3: TimeScale) {
    if !rep.tick() {
        return;
    }
    rep.class("convert/invariance");
    let (ta, tb) = (w.to_tai(ca, sa), w.to_tai(cb, sb));
    // converting a to s3 keeps the instant exactly only for uniform targets (and UTC with a pre-image)
    let lossy = is_dyn(s3) || is_dyn(sa) || is_dyn(sb);
    if lossy && (ta - tb).abs() <= 100 {
        return;
    }
    if s3 == TimeScale::UTC && sa != TimeScale::UTC && (w.from_tai(ta, s3).is_none() || w.in_f12b_window(ta) || (lossy && w.near_utc_discontinuity(ta, 100))) {
        rep.class("convert/into-utc-window(dc)");
        return;
    }
    if (s3 == TimeScale::UTC || sa == TimeScale::UTC || sb == TimeScale::UTC) && lossy && (w.near_utc_discontinuity(ta, 100) || w.near_utc_discontinuity(tb, 100)) {
        return;
    }
    let want = ta.cmp(&tb);
    let (a, b) = (ep(ca, sa), ep(cb, sb));
    match guard(|| {
        let a3 = a.to_time_scale(s3);
        (a3.cmp(&b), a3 == b, b.cmp(&a3))
    }) {
        Err(p) => rep.fail(&format!("convert/panic/{}", p.class()), None, || format!("convert+cmp panicked {}", p.msg)),
        Ok((c, eq, rc)) => {
            let in_win = (s3 == TimeScale::UTC && sb != TimeScale::UTC && w.in_f12b_window(tb)) || (sb == TimeScale::UTC && s3 != TimeScale::UTC && w.in_f12b_window(ta));
            if c != want || rc != want.reverse() || eq != (want == Ordering::Equal) {
                let f = if in_win { Some("F12b-tai-to-utc-frame") } else { None };
                // only attribute when the deformed comparison reproduces the observation
                let f = f.filter(|_| {
                    let amb = |x: i128, y: i128| lossy && (x - y).abs() <= 100;
                    let l1 = w.from_tai(ta, TimeScale::UTC).unwrap_or(0);
                    let r1 = w.from_tai_f12b(tb, TimeScale::UTC);
                    let r2 = w.from_tai_f12b(ta, TimeScale::UTC);
                    let d1 = if s3 == TimeScale::UTC { Some(l1.cmp(&r1)) } else { None };
                    let d2 = if sb == TimeScale::UTC { Some(cb.cmp(&r2)) } else { None };
                    (d1 == Some(c) || c == want || (d1.is_some() && amb(l1, r1))) && (d2 == Some(rc) || rc == want.reverse() || (d2.is_some() && amb(cb, r2))) && eq == (want == Ordering::Equal)
                });
                rep.fail("convert/changes-order", f, || format!("Epoch({},{:?}) converted to {:?} vs Epoch({},{:?}): cmp {:?} == {} swapped {:?}; chronological {:?}", ca, sa, s3, cb, sb, c, eq, rc, want));
            }
        }
    }
}

/// `Ord::clamp` (and whatever else the standard library derives from the order) answers the chronological question too:
/// x.clamp(lo, hi) is lo when x is earlier than lo, hi when it is later than hi, x itself otherwise - whatever the scales.
pub fn check_clamp(rep: &mut Rep, w: &World, x: (i128, TimeScale), p: (i128, TimeScale), q: (i128, TimeScale)) {
    let t = |v: (i128, TimeScale)| w.to_tai(v.0, v.1);
    let (lo, hi) = if t(p) <= t(q) { (p, q) } else { (q, p) };
    let (tx, tlo, thi) = (t(x), t(lo), t(hi));
    let mixed = !(x.1 == lo.1 && lo.1 == hi.1);
    let lossy = mixed && (is_dyn(x.1) || is_dyn(lo.1) || is_dyn(hi.1));
    if lossy && ((tx - tlo).abs() <= 100 || (tx - thi).abs() <= 100 || (tlo - thi).abs() <= 100) {
        return;
    }
    let utc_mixed = mixed && (x.1 == TimeScale::UTC || lo.1 == TimeScale::UTC || hi.1 == TimeScale::UTC);
    if utc_mixed && [tx, tlo, thi].iter().any(|&v| w.in_f12b_window(v) || w.from_tai(v, TimeScale::UTC).is_none() || (lossy && w.near_utc_discontinuity(v, 100))) {
        return;
    }
    if !rep.tick() {
        return;
    }
    rep.class("clamp");
    if mixed {
        rep.class("clamp/mixed-scales");
    }
    let want = if tx < tlo { lo } else if tx > thi { hi } else { x };
    let (ex, elo, ehi) = (ep(x.0, x.1), ep(lo.0, lo.1), ep(hi.0, hi.1));
    match guard(|| (ex.clamp(elo, ehi), std::cmp::max(elo, std::cmp::min(ex, ehi)), ex.max(elo).min(ehi), [elo, ex, ehi].into_iter().max(), [ehi, ex, elo].into_iter().min(), [ex, elo, ehi].iter().max_by(|a, b| a.cmp(b)).copied(), [ex, ehi, elo].iter().min_by_key(|e| **e).copied())) {
        Err(pn) => rep.fail(&format!("clamp/panic/{}", pn.class()), None, || format!("clamp of ({},{:?}) to [({},{:?}), ({},{:?})] panicked: {} at {}", x.0, x.1, lo.0, lo.1, hi.0, hi.1, pn.msg, pn.loc)),
        Ok((c, c2, c3, mx, mn, mxb, mnk)) => {
            let inst = |e: Epoch| w.to_tai(count_d(e.duration), e.time_scale);
            let tw = t(want);
            let tol = if lossy { 100 } else { 0 };
            for (name, got) in [("clamp", c), ("max(lo, min(x, hi))", c2), ("x.max(lo).min(hi)", c3)] {
                if (inst(got) - tw).abs() > tol {
                    rep.fail("clamp/value", None, || format!("({},{:?}).{name} with lo = ({},{:?}), hi = ({},{:?}) returned ({},{:?}) [TAI {}], chronologically it is ({},{:?}) [TAI {}] (x at TAI {}, lo {}, hi {})", x.0, x.1, lo.0, lo.1, hi.0, hi.1, count_d(got.duration), got.time_scale, inst(got), want.0, want.1, tw, tx, tlo, thi));
                }
            }
            let (tmax, tmin) = (tx.max(thi), tx.min(tlo));
            for (name, got, wv) in [("Iterator::max", mx, tmax), ("Iterator::max_by(cmp)", mxb, tmax), ("Iterator::min", mn, tmin), ("Iterator::min_by_key", mnk, tmin)] {
                if let Some(g) = got {
                    if (inst(g) - wv).abs() > tol {
                        rep.fail("clamp/iterator-extremum", None, || format!("{name} of x = ({},{:?}), lo = ({},{:?}), hi = ({},{:?}) is at TAI {}, chronologically {}", x.0, x.1, lo.0, lo.1, hi.0, hi.1, inst(g), wv));
                    }
                }
            }
        }
    }
}

pub fn check_sort(rep: &mut Rep, w: &World, v: Vec<(i128, TimeScale)>) {
    if !rep.tick() {
        return;
    }
    rep.class("sort/vector");
    let es: Vec<Epoch> = v.iter().map(|(c, s)| ep(*c, *s)).collect();
    let n = es.len();
    // everything else the standard library builds on the order of epochs sees the same chronology
    {
        let es2 = es.clone();
        let inst = |e: &Epoch| w.to_tai(count_d(e.duration), e.time_scale);
        match guard(move || {
            let mut u = es2.clone();
            u.sort_unstable();
            let mut pc = es2.clone();
            pc.sort_by(|a, b| a.partial_cmp(b).unwrap());
            let set: std::collections::BTreeSet<Epoch> = es2.iter().copied().collect();
            let mut st = es2.clone();
            st.sort();
            let found: Vec<bool> = es2.iter().map(|e| st.binary_search(e).map(|i| st[i] == *e).unwrap_or(false)).collect();
            (u, pc, set.into_iter().collect::<Vec<_>>(), found, es2.iter().copied().max(), es2.iter().copied().min())
        }) {
            Err(p) => rep.fail(&format!("sort/panic/{}", p.class()), None, || format!("ordering {n} epochs through the standard library panicked: {} at {}", p.msg, p.loc)),
            Ok((u, pc, set, found, mx, mn)) => {
                let mut want: Vec<i128> = v.iter().map(|(c, s)| w.to_tai(*c, *s)).collect();
                want.sort();
                for (name, got) in [("sort_unstable", &u), ("sort_by(partial_cmp)", &pc)] {
                    let g: Vec<i128> = got.iter().map(&inst).collect();
                    if g != want {
                        rep.fail("sort/std-consumer", None, || format!("{name} of {n} epochs is not the chronological order"));
                    }
                }
                let mut uniq = want.clone();
                uniq.dedup();
                let g: Vec<i128> = set.iter().map(&inst).collect();
                if g != uniq {
                    rep.fail("sort/std-consumer", None, || format!("a BTreeSet of {n} epochs iterates {} instants, want the {} distinct ones in chronological order", g.len(), uniq.len()));
                }
                if found.iter().any(|f| !f) {
                    rep.fail("sort/std-consumer", None, || format!("binary_search in the sorted vector of {n} epochs does not find one of its own elements"));
                }
                if mx.map(|e| inst(&e)) != want.last().copied() || mn.map(|e| inst(&e)) != want.first().copied() {
                    rep.fail("sort/std-consumer", None, || format!("Iterator::max / min of {n} epochs are not the latest / earliest instant"));
                }
            }
        }
    }
    match guard(move || {
        let mut x = es;
        x.sort();
        x
    }) {
        Err(p) => rep.fail(&format!("sort/panic/{}", p.class()), None, || format!("sort of {n} epochs panicked: {}", p.msg)),
        Ok(x) => {
            let ts: Vec<i128> = x.iter().map(|e| w.to_tai(count_d(e.duration), e.time_scale)).collect();
            let mut want: Vec<i128> = v.iter().map(|(c, s)| w.to_tai(*c, *s)).collect();
            want.sort();
            let mut got_sorted = ts.clone();
            got_sorted.sort();
            if got_sorted != want {
                rep.fail("sort/not-a-permutation", None, || format!("sort of {n} epochs lost or changed elements"));
            }
            for i in 1..ts.len() {
                if ts[i] < ts[i - 1] {
                    rep.fail("sort/not-chronological", None, || format!("after sort, instant {} precedes {} ({:?} then {:?})", ts[i - 1], ts[i], x[i - 1], x[i]));
                    break;
                }
            }
        }
    }
}

pub fn run(cfg: &Cfg, rep: &mut Rep) {
    let sh = rep.shard as usize;
    let n = NSHARDS as usize;
    let w = World::new(crate::model::dynm::NAIF);
    let lat = gen::reading_lattice(TimeScale::TAI, &w.leap);
    // lattice: every TAI lattice instant expressed in all 81 combinations, same instant and +-1 ns
    let mut i = 0usize;
    for &t in lat.iter() {
        i += 1;
        if i % n != sh || cfg.fuzz {
            continue;
        }
        for sa in SCALES {
            let ca = match w.from_tai(t, sa) {
                Some(x) => x,
                None => continue,
            };
            for sb in SCALES {
                for d in [-1i128, 0, 1] {
                    if let Some(cb) = w.from_tai(t + d, sb) {
                        check_pair(rep, &w, ca, sa, cb, sb);
                    }
                }
            }
        }
    }
    let mut r = Rng::new(cfg.seed, 0x1200 + sh as u64);
    let lats: Vec<Vec<i128>> = SCALES.iter().map(|s| gen::reading_lattice(*s, &w.leap)).collect();
    let nrand = cfg.budget(6_000_000);
    for k in 0..nrand {
        let k = cfg.k(k, &mut r);
        let (ia, ib) = (r.below(9) as usize, r.below(9) as usize);
        let (sa, sb) = (SCALES[ia], SCALES[ib]);
        let (ca, cb) = match k % 8 {
            0 => {
                // mirror about the reference epoch, same scale
                let d = gen::rand_count_within(&mut r, NPC - 1);
                check_pair(rep, &w, d, sa, -d, sa);
                (d, -d + r.range_i64(-1, 1) as i128)
            }
            1 | 2 => {
                // same instant (or a few ns apart) in two scales
                let ca = gen::rand_reading(&mut r, sa, &lats[ia]);
                let t = w.to_tai(ca, sa);
                let d = *r.pick(&[0i128, 0, 1, -1, 2, -2, 101, -101, 150, -150, 1000]);
                match w.from_tai(t + d, sb) {
                    Some(cb) => (ca, cb),
                    None => continue,
                }
            }
            3 | 4 => {
                // either side of a leap second
                let (ts, o) = *r.pick(&w.leap);
                let base = ts as i128 * NS_S + r.range_i64(-41, 41 + o) as i128 * NS_S;
                let ta = base + *r.pick(&[0i128, 1, -1, 500_000_000, 999_999_999]);
                let tb = ta + *r.pick(&[0i128, 1, -1, NS_S, -NS_S, 10 * NS_S, 37 * NS_S, 500_000_000, -500_000_000, 101, -101]);
                match (w.from_tai(ta, sa), w.from_tai(tb, sb)) {
                    (Some(a), Some(b)) => (a, b),
                    _ => continue,
                }
            }
            7 if r.chance(1, 2) => {
                // anywhere in the representable range (two centuries inside the bounds): the same instant, neighbours, strangers
                rep.class("pair/far-range");
                let m = 2 * NPC;
                let ca = r.range_i128(MIN_NS + m, MAX_NS - m);
                let t = w.to_tai(ca, sa);
                let d = match r.below(4) {
                    0 => 0,
                    1 => *r.pick(&[1i128, -1, 101, -101, NS_S, -NS_S]),
                    2 => gen::rand_count_within(&mut r, NPC),
                    _ => r.range_i128(MIN_NS + m, MAX_NS - m) - t,
                };
                let tb = (t + d).clamp(MIN_NS + m, MAX_NS - m);
                match w.from_tai(tb, sb) {
                    Some(cb) => (ca, cb),
                    None => continue,
                }
            }
            _ => (gen::rand_reading(&mut r, sa, &lats[ia]), gen::rand_reading(&mut r, sb, &lats[ib])),
        };
        check_pair(rep, &w, ca, sa, cb, sb);
        if k % 2 == 0 {
            check_convert(rep, &w, ca, sa, cb, sb, gen::rand_scale(&mut r));
        }
        if k % 4 == 0 {
            // triple: third epoch near the other two; all pairs must agree with the model (transitivity)
            let sc = gen::rand_scale(&mut r);
            if let Some(cc) = w.from_tai(w.to_tai(ca, sa) + r.range_i64(-300, 300) as i128, sc) {
                check_pair(rep, &w, cb, sb, cc, sc);
                check_pair(rep, &w, ca, sa, cc, sc);
                // each of the three clamped to the window the other two span
                check_clamp(rep, &w, (ca, sa), (cb, sb), (cc, sc));
                check_clamp(rep, &w, (cb, sb), (ca, sa), (cc, sc));
                check_clamp(rep, &w, (cc, sc), (ca, sa), (cb, sb));
            }
        }
        if k % 1024 == 0 {
            // mixed-scale vector around one instant, uniform scales + UTC away from leap seconds
            let t0 = gen::rand_reading(&mut r, TimeScale::TAI, &lat);
            if w.leap.iter().any(|&(ts, _)| (t0 - ts as i128 * NS_S).abs() < 200 * NS_S) {
                continue;
            }
            let mut v = vec![];
            for _ in 0..(2 + r.below(150)) {
                let s = *r.pick(&[TimeScale::TAI, TimeScale::TT, TimeScale::UTC, TimeScale::GPST, TimeScale::GST, TimeScale::BDT, TimeScale::QZSST]);
                let t = t0 + *r.pick(&[0i128, 1, -1, 2]) * r.range_i64(0, 50) as i128 + r.range_i64(-3, 3) as i128 * NS_S;
                if let Some(c) = w.from_tai(t, s) {
                    v.push((c, s));
                }
            }
            check_sort(rep, &w, v);
        }
    }
}
