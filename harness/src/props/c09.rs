//! C09 Epoch -> Gregorian fields exactly inverts construction; Display prints them.
use crate::core::*;
use crate::gen;
use crate::model::cal;
use crate::model::dur::*;
use crate::model::flt;
use crate::model::leap;
use crate::model::scale::*;
use crate::model::text::*;
use crate::props::c05::ep;
use crate::props::days::for_days;
use hifitime::{Epoch, TimeScale};

pub fn meta() -> Meta {
    Meta {
        rule: "events = for one epoch (reading c in scale s): Display, to_gregorian_str(s), to_gregorian_utc/_tai (own scale UTC/TAI), year(), month_name(), day_of_year(), year_days_of_year(), the other-scale renderings {:?} {:x} {:X} {:e} {:E} and to_gregorian_str(other), then maybe_from_gregorian on the printed fields. Expected: M-CAL civil-from-days fields of the model reading; Display == harness-built `YYYY-MM-DDTHH:MM:SS[.fffffffff] SCALE`; rebuilding from the fields gives identical parts; accessors agree with the fields (day of year within 8 ulp(366)); other-scale renderings parsed by the harness and compared with M-SCALE (exact for uniform scales and UTC, +-30 ns for ET/TDB; TAI instants without UTC pre-image don't-care). Generation: enumerated days (as C08) at first ns, last ns and a random instant, scales rotated / all nine in 1850-2150, random ns instants in all scales, UTC instants around each leap second, sampled years out to +-30000. Non-trivial = every epoch (distinct (reading, scale) hashes). Round 6: to_gregorian_str in all nine scales from any holder (60 ns when both scales are dynamical); the years at the ends of the quantifier (-30000, -10000, -1, 0, 10000, 30000). Round 10: times of day exactly one unit (1 s .. 23 h) after the start or before the end of the day +-1 ns (shared generator).",
        assumptions: &["M-CAL; the text grammar of the default form as documented"],
        mandatory: &["epoch/first-ns-of-day", "epoch/last-ns-of-day", "epoch/before-1900", "epoch/after-3408", "epoch/feb-29", "epoch/dec-31", "epoch/year-beyond-9999", "epoch/near-leap-second", "render/other-scale", "rebuild/own-scale"],
        thorough_scale: 8,
        exhaustive_part: "thorough: every calendar day of years 1..9999 (scales rotated; all nine in 1850..2150) x {first ns, last ns, random instant}",
    }
}

pub fn check(rep: &mut Rep, w: &World, c: i128, s: TimeScale, others: bool) {
    if !rep.tick() {
        return;
    }
    let f = fields_of(c, s);
    let e = ep(c, s);
    let tod = (c + greg_zero_ns(s)).rem_euclid(NS_D);
    if tod == 0 {
        rep.class("epoch/first-ns-of-day");
    } else if tod == NS_D - 1 {
        rep.class("epoch/last-ns-of-day");
    }
    if f.y < 1900 {
        rep.class("epoch/before-1900");
    }
    if f.y > 3408 {
        rep.class("epoch/after-3408");
    }
    if f.y > 9999 || f.y < 1 {
        rep.class("epoch/year-beyond-9999");
    }
    if f.m == 2 && f.d == 29 {
        rep.class("epoch/feb-29");
    }
    if f.m == 12 && f.d == 31 {
        rep.class("epoch/dec-31");
    }
    rep.nt(h64(&[c as u64, (c >> 64) as u64, scale_idx(s)]));
    let want_txt = format!("{} {}", iso_display(&f), scale_name(s));
    rep.log_event("fields", || format!("\"c\":\"{}\",\"scale\":\"{:?}\",\"want\":\"{}\"", c, s, want_txt));
    rep.sample("epoch", || format!("reading {} in {:?} => {:?}", c, s, want_txt));
    let det = || format!("Epoch({}, {:?})", c, s);
    match guard(|| {
        let own = match s {
            TimeScale::UTC => Some(e.to_gregorian_utc()),
            TimeScale::TAI => Some(e.to_gregorian_tai()),
            _ => None,
        };
        (format!("{}", e), e.to_gregorian_str(s), own, e.year(), e.month_name(), e.day_of_year(), e.year_days_of_year(), e.duration_in_year())
    }) {
        Err(p) => rep.fail(&format!("display/panic/{}", p.class()), None, || format!("{} Display/fields panicked: {} at {}", det(), p.msg, p.loc)),
        Ok((txt, gstr, own, year, mname, doy, ydoy, diy)) => {
            if txt != want_txt {
                rep.fail("display/value", None, || format!("{} prints {:?}, want {:?}", det(), txt, want_txt));
            }
            if gstr != want_txt {
                rep.fail("to_gregorian_str/own-scale", None, || format!("{}.to_gregorian_str(own) = {:?}, want {:?}", det(), gstr, want_txt));
            }
            if let Some(t) = own {
                let g = Fields { y: t.0 as i64, m: t.1 as u32, d: t.2 as u32, h: t.3 as u32, mi: t.4 as u32, s: t.5 as u32, ns: t.6 };
                if g != f {
                    rep.fail("to_gregorian/fields", None, || format!("{}.to_gregorian_{{utc,tai}}() = {:?}, want {:?}", det(), g, f));
                }
            }
            if year as i64 != f.y {
                rep.fail("year/value", None, || format!("{}.year() = {} want {}", det(), year, f.y));
            }
            if f.m >= 1 && format!("{}", mname) != cal::MONTHS[(f.m - 1) as usize] {
                rep.fail("month_name/value", None, || format!("{}.month_name() = {} want {}", det(), mname, cal::MONTHS[(f.m - 1) as usize]));
            }
            // day of year: exact = 1 + (days since 1 Jan + tod/day)
            let num = (cal::day_of_year(f.y, f.m, f.d) as i128) * NS_D + tod;
            let u366 = flt::ulp(366.0);
            if !flt::within_ulps(doy, num, NS_D, u366, 8.0) || ydoy.0 as i64 != f.y || ydoy.1 != doy {
                rep.fail("day_of_year/value", None, || format!("{}.day_of_year() = {} (year_days_of_year {:?}), exact {}/{}", det(), fmt_f64(doy), ydoy, num, NS_D));
            }
            if count_d(diy) != num - NS_D {
                rep.fail("duration_in_year/value", None, || format!("{}.duration_in_year() = {} want {}", det(), count_d(diy), num - NS_D));
            }
            // rebuild from the printed fields
            match parse_iso_with_scale(&txt) {
                None => rep.fail("display/unparseable", None, || format!("{} prints {:?}: not of the documented form", det(), txt)),
                Some((pf, sc)) => {
                    if !fields_valid(&pf) {
                        rep.fail("display/invalid-fields", None, || format!("{} prints invalid fields {:?}", det(), txt));
                    } else if sc == scale_name(s) && pf.y >= i32::MIN as i64 && pf.y <= i32::MAX as i64 {
                        rep.class("rebuild/own-scale");
                        match guard(|| Epoch::maybe_from_gregorian(pf.y as i32, pf.m as u8, pf.d as u8, pf.h as u8, pf.mi as u8, pf.s as u8, pf.ns, s)) {
                            Err(p) => rep.fail(&format!("rebuild/panic/{}", p.class()), None, || format!("rebuilding {:?} panicked {}", txt, p.msg)),
                            Ok(Err(er)) => rep.fail("rebuild/err", None, || format!("rebuilding from printed fields {:?} = Err({:?})", txt, er)),
                            Ok(Ok(g)) => {
                                if g.duration.to_parts() != e.duration.to_parts() || g.time_scale != s {
                                    rep.fail("rebuild/value", None, || format!("{} prints {:?}; rebuilding gives ({}, {:?})", det(), txt, fmt_parts(g.duration.to_parts()), g.time_scale));
                                }
                            }
                        }
                    }
                }
            }
        }
    }
    if others && rep.tick() {
        rep.class("render/other-scale");
        let t = w.to_tai(c, s);
        // tuple accessors in TAI and UTC for an epoch of any scale
        if let Ok((gt, gu)) = guard(|| (e.to_gregorian_tai(), e.to_gregorian_utc())) {
            let tol: i128 = if is_dyn(s) { 30 } else { 0 };
            let tf = |x: (i32, u8, u8, u8, u8, u8, u32)| Fields { y: x.0 as i64, m: x.1 as u32, d: x.2 as u32, h: x.3 as u32, mi: x.4 as u32, s: x.5 as u32, ns: x.6 };
            let (ft, fu) = (tf(gt), tf(gu));
            if !fields_valid(&ft) || (count_of(&ft, TimeScale::TAI) - t).abs() > tol {
                rep.fail("to_gregorian_tai/cross-scale", None, || format!("{}.to_gregorian_tai() = {:?}, TAI reading is {}", det(), ft, t));
            }
            let skip_utc = tol > 0 && w.near_utc_discontinuity(t, 100);
            if let (Some(u), false) = (if s == TimeScale::UTC { Some(c) } else { w.from_tai(t, TimeScale::UTC) }, skip_utc) {
                if !fields_valid(&fu) || (count_of(&fu, TimeScale::UTC) - u).abs() > tol {
                    let fid = if s != TimeScale::UTC && w.in_f12b_window(t) && fields_valid(&fu) && (count_of(&fu, TimeScale::UTC) - w.from_tai_f12b(t, TimeScale::UTC)).abs() <= tol { Some("F12b-tai-to-utc-frame") } else { None };
                    rep.fail("to_gregorian_utc/cross-scale", fid, || format!("{}.to_gregorian_utc() = {:?}, UTC reading is {}", det(), fu, u));
                }
            }
        }
        match guard(|| {
            let mut v = vec![
                (TimeScale::UTC, format!("{:?}", e)),
                (TimeScale::TAI, format!("{:x}", e)),
                (TimeScale::TT, format!("{:X}", e)),
                (TimeScale::TDB, format!("{:e}", e)),
                (TimeScale::ET, format!("{:E}", e)),
            ];
            // "decomposing any epoch into Gregorian fields in a time scale": every one of the nine, whatever scale holds it
            for s2 in SCALES {
                v.push((s2, e.to_gregorian_str(s2)));
            }
            v
        }) {
            Err(p) => rep.fail(&format!("render/panic/{}", p.class()), None, || format!("{} other-scale rendering panicked: {} at {}", det(), p.msg, p.loc)),
            Ok(v) => {
                for (s2, txt) in v {
                    let tol: i128 = if s2 == s { 0 } else if is_dyn(s2) && is_dyn(s) { 60 } else if is_dyn(s2) || is_dyn(s) { 30 } else { 0 };
                    if tol > 0 && s2 == TimeScale::UTC && w.near_utc_discontinuity(t, 100) {
                        continue; // ET/TDB tolerance makes the UTC reading ambiguous by a whole second
                    }
                    let want = if s2 == s { Some(c) } else { w.from_tai(t, s2) };
                    let want = match want {
                        Some(x) => x,
                        None => continue, // no UTC pre-image: don't care
                    };
                    match parse_iso_with_scale(&txt) {
                        None => rep.fail("render/unparseable", None, || format!("{} rendered in {:?}: {:?}", det(), s2, txt)),
                        Some((pf, sc)) => {
                            if sc != scale_name(s2) || !fields_valid(&pf) {
                                rep.fail("render/invalid", None, || format!("{} rendered in {:?}: {:?}", det(), s2, txt));
                                continue;
                            }
                            let g = count_of(&pf, s2);
                            if (g - want).abs() > tol {
                                let fid = if s2 == TimeScale::UTC && w.in_f12b_window(t) && (g - w.from_tai_f12b(t, s2)).abs() <= tol { Some("F12b-tai-to-utc-frame") } else { None };
                                rep.fail("render/value", fid, || format!("{} rendered in {:?}: {:?} = reading {}, want {} (tol {}; off by {} ns)", det(), s2, txt, g, want, tol, g - want));
                            }
                        }
                    }
                }
            }
        }
    }
}

pub fn run(cfg: &Cfg, rep: &mut Rep) {
    let sh = rep.shard;
    let w = World::new(crate::model::dynm::NAIF);
    let full = cfg.tier == Tier::Thorough;
    let mut r = Rng::new(cfg.seed, 0x0900 + sh as u64);
    let a = cal::days_from_1900(1850, 1, 1);
    let b = cal::days_from_1900(2150, 12, 31);
    let mut rr = r.clone();
    for_days(cfg, sh, full, 7, |_y, _m, _d, z| {
        let dense = z >= a && z <= b;
        let scales: Vec<TimeScale> = if dense { SCALES.to_vec() } else { vec![SCALES[(z.rem_euclid(9)) as usize]] };
        for s in scales {
            let base = z as i128 * NS_D - greg_zero_ns(s);
            check(rep, &w, base, s, z % 16 == 0);
            check(rep, &w, base + NS_D - 1, s, z % 16 == 1);
            check(rep, &w, base + rr.below(NS_D as u64) as i128, s, z % 16 == 2);
        }
    });
    // leap-second neighbourhoods in UTC and TAI
    let tab = leap::table();
    let mut i = 0usize;
    for &(ts, o) in &tab {
        if cfg.fuzz {
            break;
        }
        for sec in -3i128..=(o as i128 + 3) {
            for ns in [0i128, 1, 999_999_999] {
                i += 1;
                if i % NSHARDS as usize != sh as usize {
                    continue;
                }
                rep.class("epoch/near-leap-second");
                let c = (ts as i128 + sec) * NS_S + ns;
                check(rep, &w, c, TimeScale::UTC, true);
                check(rep, &w, c, TimeScale::TAI, true);
                check(rep, &w, c - zero_tai_ns(TimeScale::GPST), TimeScale::GPST, true);
            }
        }
    }
    let lats: Vec<Vec<i128>> = SCALES.iter().map(|s| gen::reading_lattice(*s, &w.leap)).collect();
    let nrand = cfg.budget(400_000);
    for k in 0..nrand {
        let k = cfg.k(k, &mut r);
        let si = r.below(9) as usize;
        let s = SCALES[si];
        let c = if k % 50 == 0 {
            // sampled years out to +-30000
            let (lo, hi) = gen::reading_range(s, -30000, 30000);
            r.range_i128(lo, hi)
        } else if k % 50 == 25 {
            // the ends of the quantifier (+-30 000 years; five-digit and signed years make the longest texts it contains)
            rep.class("epoch/far-year");
            let y = *r.pick(&[-30_000i64, -29_999, -10_000, -9_999, -1_000, -999, -1, 0, 10_000, 29_999, 30_000]);
            let (lo, hi) = gen::reading_range(s, y, y);
            r.range_i128(lo, hi)
        } else {
            gen::rand_reading(&mut r, s, &lats[si])
        };
        check(rep, &w, c, s, k % 4 == 0);
        if k % 16 == 0 {
            // an epoch held in one scale whose reading in the scale of one of the *other* renderings ({:?} UTC, {:x} TAI,
            // {:X} TT, {:e} TDB, {:E} ET, to_gregorian_str(GPST | BDT)) is a whole second, a whole minute or a midnight:
            // the renderings have a separate branch for a zero sub-second, reached from another scale only by such inputs
            let s2 = *r.pick(&[TimeScale::UTC, TimeScale::TAI, TimeScale::TT, TimeScale::TDB, TimeScale::ET, TimeScale::GPST, TimeScale::BDT]);
            let (lo, hi) = gen::reading_range(s2, if k % 32 == 0 { -400 } else { 1600 }, 2400);
            let q = match r.below(3) {
                0 => NS_S,
                1 => NS_MIN,
                _ => NS_D,
            };
            let r2 = (r.range_i128(lo, hi) / q) * q - if q == NS_D { greg_zero_ns(s2).rem_euclid(NS_D) } else { 0 };
            let t = w.to_tai(r2, s2);
            let src = loop {
                let x = crate::gen::rand_scale(&mut r);
                if x != s2 {
                    break x;
                }
            };
            if let Some(c0) = w.from_tai(t, src) {
                rep.class("render/whole-second-in-other-scale");
                if is_dyn(s2) || is_dyn(src) {
                    // the model only knows the dynamical reading to a few ns: try the neighbours too
                    for dk in -3i128..=3 {
                        check(rep, &w, c0 + dk, src, true);
                    }
                } else {
                    check(rep, &w, c0, src, true);
                }
            }
        }
    }
}
