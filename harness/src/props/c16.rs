//! C16 Epoch weekday is the civil weekday of its date; weekday arithmetic is mod 7.
use crate::core::*;
use crate::gen;
use crate::model::cal;
use crate::model::dur::*;
use crate::model::scale::*;
use crate::props::c05::ep;
use crate::props::days::for_days;
use hifitime::{Epoch, TimeScale, Weekday};

pub fn meta() -> Meta {
    Meta {
        rule: "events = (a) weekday(), weekday_utc(), weekday_in_time_scale(TAI|UTC) of one epoch; (b) next/previous(weekday) for all 7 weekdays (+ _at_midnight/_at_noon variants); (c) exhaustive Weekday arithmetic: From<u8> (256), From<i8> (256), 7x256 weekday +/- u8 and += / -=, 49 weekday + weekday sums and weekday - weekday differences. Expected: weekday of the TAI / UTC civil date of the instant (M-SCALE + M-CAL, 1900-01-01 = Monday), arithmetic in Z/7, next/previous exactly 1..7 whole days later/earlier with the requested weekday. ET/TDB epochs within 100 ns of a TAI day boundary, TAI instants without UTC pre-image, and weekday equality after next/previous for UTC epochs within 8 days of a leap second are don't-care. Generation: enumerated days at first ns, last ns, last microsecond and a random time, scales rotated (all nine 1850-2150), random instants, dates before 1900. Non-trivial = every epoch event (distinct (reading, scale) hashes) and every arithmetic combination.",
        assumptions: &["weekday_in_time_scale for scales whose reference day is not a Monday is documented as not civil: both the documented day count and the civil weekday of the date in that scale are accepted"],
        mandatory: &["wd/last-ns-of-day", "wd/first-ns-of-day", "wd/before-1900", "wd/utc-differs-from-tai", "arith/exhaustive", "next/same-weekday", "next/before-reference"],
        thorough_scale: 8,
        exhaustive_part: "Weekday arithmetic: 256 u8 + 256 i8 conversions, 7x256 +/- u8 (4 forms), 49 pairs x {+,-}; thorough: every day of years 1..9999",
    }
}

fn wd(i: u8) -> Weekday {
    // harness's own mapping, Monday = 0
    match i % 7 {
        0 => Weekday::Monday,
        1 => Weekday::Tuesday,
        2 => Weekday::Wednesday,
        3 => Weekday::Thursday,
        4 => Weekday::Friday,
        5 => Weekday::Saturday,
        _ => Weekday::Sunday,
    }
}
fn idx(w: Weekday) -> u8 {
    match w {
        Weekday::Monday => 0,
        Weekday::Tuesday => 1,
        Weekday::Wednesday => 2,
        Weekday::Thursday => 3,
        Weekday::Friday => 4,
        Weekday::Saturday => 5,
        Weekday::Sunday => 6,
    }
}

fn check_arith(rep: &mut Rep) {
    for n in 0..=255u8 {
        if rep.tick() {
            rep.class("arith/exhaustive");
            rep.nt(h64(&[1, n as u64]));
            match guard(|| (Weekday::from(n), Weekday::from(n as i8))) {
                Err(p) => rep.fail(&format!("from/panic/{}", p.class()), None, || format!("Weekday::from({n}) panicked: {}", p.msg)),
                Ok((a, b)) => {
                    if idx(a) != n % 7 {
                        rep.fail("from-u8/value", None, || format!("Weekday::from({n}u8) = {:?} want {:?}", a, wd(n % 7)));
                    }
                    let i = n as i8;
                    if idx(b) != (i as i32).rem_euclid(7) as u8 {
                        rep.fail("from-i8/value", None, || format!("Weekday::from({i}i8) = {:?} want {:?}", b, wd((i as i32).rem_euclid(7) as u8)));
                    }
                }
            }
        }
        for a in 0..7u8 {
            if !rep.tick() {
                continue;
            }
            rep.class("arith/exhaustive");
            rep.nt(h64(&[2, n as u64, a as u64]));
            let w = wd(a);
            let wa = (a as u32 + n as u32) % 7;
            let ws = (a as i32 - n as i32).rem_euclid(7) as u32;
            for (name, want, f) in [
                ("add-u8", wa, Box::new(move || w + n) as Box<dyn Fn() -> Weekday>),
                ("sub-u8", ws, Box::new(move || w - n)),
                ("add-assign-u8", wa, Box::new(move || { let mut x = w; x += n; x })),
                ("sub-assign-u8", ws, Box::new(move || { let mut x = w; x -= n; x })),
            ] {
                match guard(|| f()) {
                    Err(p) => rep.fail(&format!("{name}/panic/{}", p.class()), None, || format!("{:?} {name} {n} panicked: {}", w, p.msg)),
                    Ok(g) => {
                        if idx(g) as u32 != want {
                            rep.fail(&format!("{name}/value"), None, || format!("{:?} {name} {n} = {:?} want {:?}", w, g, wd(want as u8)));
                        }
                    }
                }
            }
        }
    }
    for a in 0..7u8 {
        for b in 0..7u8 {
            if !rep.tick() {
                continue;
            }
            rep.class("arith/exhaustive");
            rep.nt(h64(&[3, a as u64, b as u64]));
            match guard(|| (wd(a) + wd(b), wd(a) - wd(b))) {
                Err(p) => rep.fail(&format!("pair/panic/{}", p.class()), None, || format!("{:?} +/- {:?} panicked: {}", wd(a), wd(b), p.msg)),
                Ok((s, d)) => {
                    if idx(s) != (a + b) % 7 {
                        rep.fail("add-weekday/value", None, || format!("{:?} + {:?} = {:?}", wd(a), wd(b), s));
                    }
                    // days from a to the next occurrence of b
                    let want = ((b as i32 - a as i32).rem_euclid(7)) as i128 * NS_D;
                    if count_d(d) != want {
                        rep.fail("sub-weekday/value", None, || format!("{:?} - {:?} = {} ns want {} ns", wd(a), wd(b), count_d(d), want));
                    }
                }
            }
        }
    }
}

pub fn check_epoch(rep: &mut Rep, w: &World, c: i128, s: TimeScale, nextprev: bool) {
    if !rep.tick() {
        return;
    }
    let t = w.to_tai(c, s);
    let e = ep(c, s);
    let tod_own = (c + greg_zero_ns(s)).rem_euclid(NS_D);
    if tod_own == NS_D - 1 {
        rep.class("wd/last-ns-of-day");
    } else if tod_own == 0 {
        rep.class("wd/first-ns-of-day");
    }
    if t < 0 {
        rep.class("wd/before-1900");
    }
    rep.nt(h64(&[4, c as u64, (c >> 64) as u64, scale_idx(s)]));
    let tai_tod = t.rem_euclid(NS_D);
    let tai_ok = !is_dyn(s) || (tai_tod > 100 && tai_tod < NS_D - 100);
    let want_tai = cal::weekday_1900(t.div_euclid(NS_D) as i64);
    let utc = if s == TimeScale::UTC {
        Some(c)
    } else if is_dyn(s) && w.near_utc_discontinuity(t, 100) {
        None
    } else {
        w.from_tai(t, TimeScale::UTC)
    };
    let want_utc = utc.map(|u| cal::weekday_1900(u.div_euclid(NS_D) as i64));
    if let Some(wu) = want_utc {
        if wu != want_tai {
            rep.class("wd/utc-differs-from-tai");
        }
    }
    rep.log_event("wd", || format!("\"t\":\"{}\",\"want\":{}", t, want_tai));
    rep.sample("weekday", || format!("Epoch({}, {:?}) => TAI weekday {:?}, UTC weekday {:?}", c, s, wd(want_tai), want_utc.map(wd)));
    let det = || format!("Epoch({}, {:?})", c, s);
    match guard(|| (e.weekday(), e.weekday_in_time_scale(TimeScale::TAI), e.weekday_utc(), e.weekday_in_time_scale(TimeScale::UTC))) {
        Err(p) => rep.fail(&format!("weekday/panic/{}", p.class()), None, || format!("{} weekday accessors panicked: {}", det(), p.msg)),
        Ok((a, a2, b, b2)) => {
            if tai_ok && (idx(a) != want_tai || idx(a2) != want_tai) {
                rep.fail("weekday/tai", None, || format!("{}.weekday() = {:?} / {:?}, TAI civil date says {:?} (TAI time of day {} ns)", det(), a, a2, wd(want_tai), tai_tod));
            }
            if let (Some(wu), Some(u)) = (want_utc, utc) {
                let utod = u.rem_euclid(NS_D);
                let ok = !is_dyn(s) || (utod > 100 && utod < NS_D - 100);
                if ok && (idx(b) != wu || idx(b2) != wu) {
                    let dev = w.from_tai_f12b(t, TimeScale::UTC);
                    let fid = if s != TimeScale::UTC && w.in_f12b_window(t) && idx(b) == cal::weekday_1900(dev.div_euclid(NS_D) as i64) && idx(b2) == idx(b) { Some("F12b-tai-to-utc-frame") } else { None };
                    rep.fail("weekday/utc", fid, || format!("{}.weekday_utc() = {:?} / {:?}, UTC civil date says {:?} (UTC time of day {} ns)", det(), b, b2, wd(wu), utod));
                }
            }
        }
    }
    // weekday_in_time_scale for the other requested scales: documented as "whole days since that scale's reference, the
    // reference taken for a Monday"; the civil weekday of the date in that scale is accepted too. Either way the answer
    // depends on the instant and the requested scale only, not on the scale the epoch happens to be held in.
    if !is_dyn(s) && rep.tick() {
        rep.class("wd/in-other-scale");
        for req in [TimeScale::TT, TimeScale::GPST, TimeScale::QZSST, TimeScale::GST, TimeScale::BDT] {
            let rd = match w.from_tai(t, req) {
                Some(x) => x,
                None => continue,
            };
            let documented = rd.div_euclid(NS_D).rem_euclid(7) as u8;
            let civil = cal::weekday_1900((rd + greg_zero_ns(req)).div_euclid(NS_D) as i64);
            match guard(|| e.weekday_in_time_scale(req)) {
                Err(p) => rep.fail(&format!("weekday/panic/{}", p.class()), None, || format!("{}.weekday_in_time_scale({:?}) panicked: {}", det(), req, p.msg)),
                Ok(g) => {
                    if idx(g) != documented && idx(g) != civil {
                        let fid = if s == TimeScale::UTC || !w.in_f12b_window(t) { None } else { None };
                        rep.fail("weekday/in-time-scale", fid, || format!("{}.weekday_in_time_scale({:?}) = {:?}; reading {} in that scale: day count says {:?}, civil date says {:?}", det(), req, g, rd, wd(documented), wd(civil)));
                    }
                }
            }
        }
    }
    if !nextprev || !tai_ok {
        return;
    }
    if c < 0 {
        rep.class("next/before-reference");
    }
    let near_leap = s == TimeScale::UTC && w.leap.iter().any(|&(ts, _)| (c - ts as i128 * NS_S).abs() < 9 * NS_D);
    for k in 0..7u8 {
        if !rep.tick() {
            continue;
        }
        let target = wd(k);
        if k == want_tai {
            rep.class("next/same-weekday");
        }
        match guard(|| {
            let n = e.next(target);
            let p = e.previous(target);
            (n, p, n.weekday(), p.weekday(), e.next_weekday_at_midnight(target), e.next_weekday_at_noon(target), e.previous_weekday_at_midnight(target), e.previous_weekday_at_noon(target))
        }) {
            Err(p) => rep.fail(&format!("next-prev/panic/{}", p.class()), None, || format!("{}.next/previous({:?}) panicked: {} at {}", det(), target, p.msg, p.loc)),
            Ok((nx, pv, nwd, pwd, m1, m2, m3, m4)) => {
                // _at_midnight / _at_noon: for epochs at or after the reference of a scale whose zero is a midnight,
                // the result is the day of next()/previous() at 00:00:00 / 12:00:00 of the scale's own count
                if c >= 0 && !is_dyn(s) {
                    let fwd0 = { let f = ((k as i32 - want_tai as i32).rem_euclid(7)) as i128; if f == 0 { 7 } else { f } };
                    let bwd0 = { let b = ((want_tai as i32 - k as i32).rem_euclid(7)) as i128; if b == 0 { 7 } else { b } };
                    let day_n = (c + fwd0 * NS_D).div_euclid(NS_D) * NS_D;
                    let day_p = (c - bwd0 * NS_D).div_euclid(NS_D) * NS_D;
                    if c - bwd0 * NS_D >= 0 {
                        for (name, g, wv) in [("next_weekday_at_midnight", m1, day_n), ("next_weekday_at_noon", m2, day_n + 12 * NS_H), ("previous_weekday_at_midnight", m3, day_p), ("previous_weekday_at_noon", m4, day_p + 12 * NS_H)] {
                            if g.time_scale != s || count_d(g.duration) != wv {
                                rep.fail(&format!("{name}/value"), None, || format!("{}.{name}({:?}) = ({}, {:?}), want count {}", det(), target, count_d(g.duration), g.time_scale, wv));
                            }
                        }
                    }
                }
                let fwd = ((k as i32 - want_tai as i32).rem_euclid(7)) as i128;
                let fwd = if fwd == 0 { 7 } else { fwd };
                let bwd = ((want_tai as i32 - k as i32).rem_euclid(7)) as i128;
                let bwd = if bwd == 0 { 7 } else { bwd };
                if nx.time_scale != s || count_d(nx.duration) != c + fwd * NS_D {
                    rep.fail("next/value", None, || format!("{}.next({:?}) = ({}, {:?}), want +{} days", det(), target, count_d(nx.duration), nx.time_scale, fwd));
                }
                if pv.time_scale != s || count_d(pv.duration) != c - bwd * NS_D {
                    rep.fail("previous/value", None, || format!("{}.previous({:?}) = ({}, {:?}), want -{} days", det(), target, count_d(pv.duration), pv.time_scale, bwd));
                }
                if !near_leap && !is_dyn(s) && (idx(nwd) != k || idx(pwd) != k) {
                    rep.fail("next-prev/weekday-of-result", None, || format!("{}.next/previous({:?}) fall on {:?} / {:?}", det(), target, nwd, pwd));
                }
            }
        }
    }
}

pub fn run(cfg: &Cfg, rep: &mut Rep) {
    let sh = rep.shard;
    let w = World::new(crate::model::dynm::NAIF);
    if sh == 0 {
        check_arith(rep);
    }
    let full = cfg.tier == Tier::Thorough;
    let mut r = Rng::new(cfg.seed, 0x1600 + sh as u64);
    let a = cal::days_from_1900(1850, 1, 1);
    let b = cal::days_from_1900(2150, 12, 31);
    let mut rr = r.clone();
    for_days(cfg, sh, full, 7, |_y, _m, _d, z| {
        let dense = z >= a && z <= b;
        let scales: Vec<TimeScale> = if dense { SCALES.to_vec() } else { vec![SCALES[(z.rem_euclid(9)) as usize]] };
        for s in scales {
            let base = z as i128 * NS_D - greg_zero_ns(s);
            check_epoch(rep, &w, base, s, z % 64 == 0);
            check_epoch(rep, &w, base + NS_D - 1, s, z % 64 == 1);
            check_epoch(rep, &w, base + NS_D - 1000, s, false);
            check_epoch(rep, &w, base + rr.below(NS_D as u64) as i128, s, z % 64 == 2);
        }
    });
    let lats: Vec<Vec<i128>> = SCALES.iter().map(|s| gen::reading_lattice(*s, &w.leap)).collect();
    let nrand = cfg.budget(1_200_000);
    for k in 0..nrand {
        let k = cfg.k(k, &mut r);
        let si = r.below(9) as usize;
        let s = SCALES[si];
        let c = match r.below(4) {
            0 => {
                // last nanoseconds of a TAI day
                let (lo, hi) = gen::reading_range(TimeScale::TAI, 1, 9999);
                let day = r.range_i128(lo / NS_D, hi / NS_D);
                let t = day * NS_D - 1 - r.below(300) as i128;
                match w.from_tai(t, s) {
                    Some(x) => x,
                    None => continue,
                }
            }
            _ => gen::rand_reading(&mut r, s, &lats[si]),
        };
        check_epoch(rep, &w, c, s, k % 8 == 0);
    }
}
