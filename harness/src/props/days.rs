//! Shared enumerator of calendar days (years 1..=9999) used by C08 C09 C16.
use crate::core::*;
use crate::model::cal;

/// Calls f(y, m, d, day_index) for the days this shard owns. Quick tier: every day of 1850..=2150 plus
/// every `stride`-th day elsewhere (offset by the seed so that different seeds cover different days);
/// thorough tier (full = true): every day of years 1..=9999.
pub fn for_days(cfg: &Cfg, shard: u32, full: bool, stride: i64, mut f: impl FnMut(i64, u32, u32, i64)) {
    if cfg.fuzz {
        return; // coverage-guided mode: the random strata only
    }
    let z0 = cal::days_from_1900(1, 1, 1);
    let z1 = cal::days_from_1900(9999, 12, 31);
    let a = cal::days_from_1900(1850, 1, 1);
    let b = cal::days_from_1900(2150, 12, 31);
    let off = (cfg.seed % stride as u64) as i64;
    let mut k: u64 = 0;
    for z in z0..=z1 {
        let dense = z >= a && z <= b;
        if !(full || dense || (z - z0) % stride == off) {
            continue;
        }
        k += 1;
        if k % NSHARDS as u64 != shard as u64 {
            continue;
        }
        let (y, m, d) = cal::civil_from_days_1900(z);
        f(y, m, d, z);
    }
}
