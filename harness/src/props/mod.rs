use crate::core::{Cfg, Meta, Rep};
pub mod c01;
pub mod c02;
pub mod c03;
pub mod c04;
pub mod c05;
pub mod c06;
pub mod c07;
pub mod c08;
pub mod c09;
pub mod days;
pub mod c10;
pub mod c11;
pub mod c12;
pub mod c13;
pub mod c14;
pub mod c15;
pub mod c16;
pub mod c17;
pub mod c18;
pub mod c19;
pub mod c20;
pub mod cold;

pub fn meta(prop: &str) -> Option<Meta> {
    Some(match prop {
        "C01" => c01::meta(),
        "C02" => c02::meta(),
        "C03" => c03::meta(),
        "C04" => c04::meta(),
        "C05" => c05::meta(),
        "C06" => c06::meta(),
        "C07" => c07::meta(),
        "C08" => c08::meta(),
        "C09" => c09::meta(),
        "C10" => c10::meta(),
        "C11" => c11::meta(),
        "C12" => c12::meta(),
        "C13" => c13::meta(),
        "C14" => c14::meta(),
        "C15" => c15::meta(),
        "C16" => c16::meta(),
        "C17" => c17::meta(),
        "C18" => c18::meta(),
        "C19" => c19::meta(),
        "C20" => c20::meta(),
        _ => return None,
    })
}

pub fn run(prop: &str, cfg: &Cfg, rep: &mut Rep) {
    match prop {
        "C01" => c01::run(cfg, rep),
        "C02" => c02::run(cfg, rep),
        "C03" => c03::run(cfg, rep),
        "C04" => c04::run(cfg, rep),
        "C05" => c05::run(cfg, rep),
        "C06" => c06::run(cfg, rep),
        "C07" => c07::run(cfg, rep),
        "C08" => c08::run(cfg, rep),
        "C09" => c09::run(cfg, rep),
        "C10" => c10::run(cfg, rep),
        "C11" => c11::run(cfg, rep),
        "C12" => c12::run(cfg, rep),
        "C13" => c13::run(cfg, rep),
        "C14" => c14::run(cfg, rep),
        "C15" => c15::run(cfg, rep),
        "C16" => c16::run(cfg, rep),
        "C17" => c17::run(cfg, rep),
        "C18" => c18::run(cfg, rep),
        "C19" => c19::run(cfg, rep),
        "C20" => c20::run(cfg, rep),
        _ => panic!("unknown property {prop}"),
    }
}

pub const ALL: [&str; 20] = ["C01", "C02", "C03", "C04", "C05", "C06", "C07", "C08", "C09", "C10", "C11", "C12", "C13", "C14", "C15", "C16", "C17", "C18", "C19", "C20"];
