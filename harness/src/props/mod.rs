use crate::core::{Cfg, Meta, Rep};
pub mod c01;
pub mod c02;
pub mod c03;
pub mod c14;
pub mod c18;

pub fn meta(prop: &str) -> Option<Meta> {
    Some(match prop {
        "C01" => c01::meta(),
        "C02" => c02::meta(),
        "C03" => c03::meta(),
        "C14" => c14::meta(),
        "C18" => c18::meta(),
        _ => return None,
    })
}

pub fn run(prop: &str, cfg: &Cfg, rep: &mut Rep) {
    match prop {
        "C01" => c01::run(cfg, rep),
        "C02" => c02::run(cfg, rep),
        "C03" => c03::run(cfg, rep),
        "C14" => c14::run(cfg, rep),
        "C18" => c18::run(cfg, rep),
        _ => panic!("unknown property {prop}"),
    }
}

pub const ALL: [&str; 3] = ["C01", "C02", "C03"];
