//! C13 Parsers are total: any string yields a value or an error, never a panic.
use crate::core::*;
use crate::model::cal;
use crate::model::dur::*;
use crate::model::scale::SCALES;
use crate::model::text::{count_of, scale_name, Fields};
use hifitime::efmt::{Format, Formatter};
use hifitime::{Duration, Epoch, MonthName, TimeScale, Weekday};
use std::str::FromStr;

pub fn meta() -> Meta {
    Meta {
        rule: "events = one string fed to every parsing entry point: Epoch::from_str, Epoch::from_gregorian_str, Epoch::from_format_str(s, fmt), Epoch::from_str_with_format(s, Format), Format::from_str, Format::parse, Duration::from_str, TimeScale/Weekday/MonthName::from_str (the string is used both as input and as format). Expected: outcome is a value or an Err; a panic of any kind (slice boundary, unwrap, todo!, unreachable!, assert, arithmetic overflow under overflow-checks), a step-budget overrun or a sanitizer report is a violation, signature = entry point + normalised panic site. Well-formed ISO text with exactly one field out of range (month 0/13, day 0/32, 30 February, 29 February of a non-leap year, hour 25, minute 60, second 61, UTC offset hours >= 24 or minutes >= 60, day of year 0 or beyond the year in %j formats, second 60 on any day / time of day without an inserted leap second) must be Err. Generation: grammar-derived valid texts (ISO/RFC3339 with 0-12 fractional digits, Z, offsets, scale suffix; JD/MJD/SEC numeric forms incl. exponents/inf/nan; duration texts and offsets; format strings of 1-18 tokens incl. %w %J %y and '?'; the formatter's own output for random (epoch, format) pairs; scale/weekday/month names) and 1-3 point mutations of them (delete, insert, substitute, truncate, duplicate, long digit runs, huge exponents, multi-byte and digit-like non-ASCII characters, control characters, prefix + white-space padding at either end, multi-byte look-alikes of signs / digits / separators in first position or in place of a sign), the complete single-edit lattice (every insert / replace / delete position x 33 characters, every white-space-padded prefix) of 26 seed texts covering each grammar, plus pairs (format string, unrelated input). Non-trivial = mutated or non-ASCII or out-of-range or (format,input) pair; distinct = distinct string hashes among those. Round 6: day-of-year lattice with the day in front of the year (%j %Y, %j/%Y %H:%M:%S, %H:%M:%S %j %Y, %J %Y); second 60 next to eight UTC offsets at eight times of day (open only where the wall clock or the denoted instant is a real leap second); every printable ASCII letter as a token after 0..20 known tokens with four tails; fields 256 + x and 65536 + x. Rounds 7-9: every out-of-range UTC offset also spelled +HHMM, +HHMMZ, ' +HH:MM', +HH:MM:00, +HH.MM, +HHhMM, with and without a fraction before it; formats of 13-18 tokens (the item table holds 16) x three token mixes x eight trailers read against the formatter's own output complete, cut short at each of the last twelve characters and with eighteen endings. Round 10: out-of-range ordinal texts (YYYY-DDD) through the format-less parsers; 23:59:00 / :59 / :60 on 30 June and 31 December of every year 1..9999 in ISO and RFC 2822 form.",
        assumptions: &["the logical step budget (2000 ticks of the hooked loop) bounds 'terminates'; a generous wall-clock watchdog makes a hang inconclusive rather than silent"],
        mandatory: &["str/valid-iso", "str/mutated", "str/non-ascii", "str/out-of-range-field", "str/numeric-form", "str/duration", "str/format-string", "str/formatter-output", "str/name", "pair/format-input", "str/extreme-year", "str/single-edit", "str/padded-prefix", "outcome/ok", "outcome/err"],
        thorough_scale: 60,
        exhaustive_part: "out-of-range lattice: every field of an ISO text at {0, max+1, 99}, UTC offsets (hours 24/99, minutes 60/99) and day-of-year formats (day 0, year length + 1, 367, 999; hour 25, minute 60, second 61) for 400 base dates",
    }
}

const ALPHA: [&str; 46] = [
    "0", "1", "9", "5", "-", "+", ":", ".", "T", "Z", " ", "%", "?", "e", "E", "d", "h", "s", "m", "n", "μ", "é", "٣", "０", "𝟘", "\u{0}", "\t", "\n", "\u{7f}", "/", ",", "_", "U", "TAI", "UTC", "GPST", "JD", "MJD", "SEC", "%Y", "%j", "%z", "%T", "inf", "nan", "\u{200b}",
];

fn mutate(r: &mut Rng, s: &str) -> String {
    let mut chars: Vec<char> = s.chars().collect();
    let nmut = 1 + r.below(3);
    for _ in 0..nmut {
        let len = chars.len();
        match r.below(11) {
            0 if len > 0 => {
                chars.remove(r.below(len as u64) as usize);
            }
            1 | 2 => {
                let pos = r.below(len as u64 + 1) as usize;
                let ins: Vec<char> = r.pick(&ALPHA).chars().collect();
                for (k, c) in ins.into_iter().enumerate() {
                    chars.insert(pos + k, c);
                }
            }
            3 if len > 0 => {
                let pos = r.below(len as u64) as usize;
                let sub: Vec<char> = r.pick(&ALPHA).chars().collect();
                chars[pos] = sub[0];
            }
            4 if len > 0 => {
                chars.truncate(r.below(len as u64) as usize);
            }
            5 if len > 0 => {
                let a = r.below(len as u64) as usize;
                let b = (a + 1 + r.below(6) as usize).min(len);
                let seg: Vec<char> = chars[a..b].to_vec();
                let pos = r.below(len as u64 + 1) as usize;
                for (k, c) in seg.into_iter().enumerate() {
                    chars.insert(pos + k, c);
                }
            }
            9 | 10 => {
                // integer-width boundary literal (i8/u8/i16/i32/u32/i64 limits and the values 2000 below them)
                let lit = *r.pick(&["2147483647", "2147483648", "-2147483648", "2147481647", "2147481648", "2147483646", "4294967295", "4294967296", "255", "256", "127", "128", "65535", "65536", "32767", "32768", "9223372036854775807", "9223372036854775808", "18446744073709551615", "999999999", "1000000000", "5879611", "5879612", "-5877711", "-5877712"]);
                // replace a digit run (if any) or insert
                let mut start = None;
                let pick = r.below(len.max(1) as u64) as usize;
                for i in pick..len {
                    if chars[i].is_ascii_digit() {
                        start = Some(i);
                        break;
                    }
                }
                match start {
                    Some(a) => {
                        let mut b = a;
                        while b < chars.len() && chars[b].is_ascii_digit() {
                            b += 1;
                        }
                        chars.splice(a..b, lit.chars());
                    }
                    None => {
                        let pos = r.below(len as u64 + 1) as usize;
                        for (k, c) in lit.chars().enumerate() {
                            chars.insert(pos + k, c);
                        }
                    }
                }
            }
            6 => {
                // long digit run
                let pos = r.below(len as u64 + 1) as usize;
                let n = 1 + r.below(40) as usize;
                let d = *r.pick(&['0', '9', '1', '7']);
                for _ in 0..n {
                    chars.insert(pos, d);
                }
            }
            7 => {
                let pos = r.below(len as u64 + 1) as usize;
                let e: Vec<char> = format!("e{}{}", if r.bool() { "-" } else { "" }, r.below(5000)).chars().collect();
                for (k, c) in e.into_iter().enumerate() {
                    chars.insert(pos + k, c);
                }
            }
            _ if len > 1 => {
                let a = r.below(len as u64) as usize;
                let b = r.below(len as u64) as usize;
                chars.swap(a, b);
            }
            _ => {}
        }
    }
    // afterwards, sometimes: keep only a short prefix and / or pad with a run of white space (ASCII or not), at either
    // end - the parsers trim, and lengths taken before and after trimming differ
    if r.chance(1, 6) {
        if r.bool() && !chars.is_empty() {
            let keep = 1 + r.below(chars.len().min(8) as u64) as usize;
            chars.truncate(keep);
        }
        let ws = *r.pick(&[' ', ' ', ' ', '\t', '\n', '\u{2003}', '\u{a0}', '\u{3000}', '\r']);
        let nws = 1 + r.below(12) as usize;
        match r.below(3) {
            0 => chars.extend(std::iter::repeat(ws).take(nws)),
            1 => {
                for _ in 0..nws {
                    chars.insert(0, ws);
                }
            }
            _ => {
                chars.extend(std::iter::repeat(ws).take(nws));
                for _ in 0..1 + r.below(6) {
                    chars.insert(0, ws);
                }
            }
        }
    }
    // sometimes: the first character, or a sign anywhere, becomes a multi-byte look-alike
    if r.chance(1, 10) && !chars.is_empty() {
        let c = *r.pick(&LOOKALIKES);
        let signs: Vec<usize> = chars.iter().enumerate().filter(|(_, c)| **c == '-' || **c == '+').map(|(i, _)| i).collect();
        if !signs.is_empty() && r.bool() {
            chars[*r.pick(&signs)] = c;
        } else if r.bool() {
            chars[0] = c;
        } else {
            chars.insert(0, c);
        }
    }
    chars.into_iter().collect()
}

/// multi-byte characters a lenient sign / digit / separator test might accept: minus and plus look-alikes, dashes,
/// full-width and other-script digits, non-ASCII white space, combining marks, a 4-byte character
pub const LOOKALIKES: [char; 24] = [
    '\u{2212}', '\u{ff0b}', '\u{ff0d}', '\u{2013}', '\u{2014}', '\u{fe63}', '\u{207a}', '\u{207b}', '\u{b1}', '\u{2010}', '\u{ff10}', '\u{ff19}', '\u{663}', '\u{966}', '\u{1d7d8}', '\u{2003}',
    '\u{a0}', '\u{3000}', '\u{ff1a}', '\u{ff0e}', '\u{301}', '\u{200d}', '\u{3bc}', '\u{1f600}',
];

/// texts from which the single-edit lattice starts (one per grammar the parsers know)
pub const EDIT_SEEDS: [&str; 26] = [
    "2022-03-04T05:06:07.000000008 UTC", "2022-03-04 05:06:07", "2022-03-04T05:06:07+01:30", "2022-03-04T05:06:07.5-00:30 TAI", "2022-03-04", "-0400-03-04T05:06:07 TT", "JD 2451545.0 TAI", "JD 2451545 ET",
    "MJD 51544.5 UTC", "SEC 66312032.18493909 TDB", "SEC -0.5 GPST", "1 d 2 h 3 min 4 s 5 ms 6 us 7 ns", "-5 h", "+7.25 days", "-01:15:30", "+01:15", "1.5e3 ms", "0 ns", "28 μs", "%Y-%m-%dT%H:%M:%S.%f %T",
    "%a, %d %b %Y %H:%M:%S", "%Y-%jT%H:%M?:%S? %z", "GPST", "Monday", "January", "Tue",
];

/// every single-character edit (insert before / replace / delete, and appended at the end) of every seed text with every
/// look-alike and a few ASCII characters, plus every prefix of every seed padded with white space on either side
pub fn single_edit_lattice(rep: &mut Rep, shard: usize, n: usize, stride: usize, phase: usize) {
    let mut i = 0usize;
    let mut kept = 0usize;
    let ascii = ['-', '+', ' ', '0', ':', '.', 'T', '%', '\u{0}'];
    for seed in EDIT_SEEDS {
        let chars: Vec<char> = seed.chars().collect();
        for pos in 0..=chars.len() {
            i += 1;
            if i % n != shard {
                continue;
            }
            // (the slow auxiliary flavours - Miri - take one position in `stride`)
            kept += 1;
            if kept % stride != phase % stride {
                continue;
            }
            for c in LOOKALIKES.iter().chain(ascii.iter()) {
                let mut ins = chars.clone();
                ins.insert(pos, *c);
                feed(rep, &ins.iter().collect::<String>(), "%Y-%m-%dT%H:%M:%S", "str/single-edit", true);
                if pos < chars.len() {
                    let mut rp = chars.clone();
                    rp[pos] = *c;
                    feed(rep, &rp.iter().collect::<String>(), "%Y-%m-%dT%H:%M:%S", "str/single-edit", true);
                }
            }
            if pos < chars.len() {
                let mut del = chars.clone();
                del.remove(pos);
                feed(rep, &del.iter().collect::<String>(), "%Y-%m-%dT%H:%M:%S", "str/single-edit", true);
            }
            // prefix of length pos, padded
            let pre: String = chars[..pos].iter().collect();
            for pad in [1usize, 2, 3, 4, 5, 6, 7, 8, 16] {
                for ws in [' ', '\t', '\u{2003}'] {
                    let w: String = std::iter::repeat(ws).take(pad).collect();
                    feed(rep, &format!("{pre}{w}"), "%Y-%m-%d", "str/padded-prefix", true);
                    feed(rep, &format!("{w}{pre}"), "%Y-%m-%d", "str/padded-prefix", true);
                    if pad <= 3 {
                        feed(rep, &format!("{w}{pre}{w}"), "%Y-%m-%d", "str/padded-prefix", true);
                    }
                }
            }
        }
    }
}

fn gen_iso(r: &mut Rng) -> String {
    let y = match r.below(6) {
        0 => r.range_i64(-400, 12000),
        1 => r.range_i64(1, 9999),
        _ => r.range_i64(1900, 2100),
    };
    let m = 1 + r.below(12);
    let d = 1 + r.below(cal::dim(y, m as u32) as u64);
    let mut s = format!("{:04}-{:02}-{:02}{}{:02}:{:02}:{:02}", y, m, d, if r.chance(3, 4) { 'T' } else { ' ' }, r.below(24), r.below(60), r.below(60));
    if r.bool() {
        let k = r.below(13) as usize;
        if k > 0 {
            s.push('.');
            for _ in 0..k {
                s.push(char::from(b'0' + r.below(10) as u8));
            }
        }
    }
    match r.below(5) {
        0 => s.push('Z'),
        1 => s.push_str(&format!("{}{:02}:{:02}", if r.bool() { '+' } else { '-' }, r.below(24), r.below(60))),
        _ => {}
    }
    if r.bool() {
        s.push(' ');
        s.push_str(scale_name(*r.pick(&SCALES)));
    }
    s
}

fn gen_numeric(r: &mut Rng) -> String {
    let f = *r.pick(&["JD", "MJD", "SEC"]);
    let v = match r.below(8) {
        0 => format!("{}", r.range_i64(-1_000_000, 3_000_000)),
        1 => format!("{}.{}", r.range_i64(0, 3_000_000), r.below(1_000_000_000)),
        2 => format!("{}e{}", r.range_i64(-999, 999), r.range_i64(-400, 400)),
        3 => (*r.pick(&["inf", "-inf", "nan", "NaN", "infinity", "1e999", "-1e999", "0x10", "1_000", "+5", ".5", "5."])).to_string(),
        4 => format!("{:e}", f64::from_bits(r.u64())),
        _ => format!("{}", (r.f64_unit() - 0.3) * 3e6),
    };
    let sc = if r.chance(1, 8) { (*r.pick(&["GPS", "GAL", "BDS", "QZSS", "XYZ", "", "tai"])).to_string() } else { scale_name(*r.pick(&SCALES)).to_string() };
    format!("{f} {v} {sc}")
}

fn gen_duration(r: &mut Rng) -> String {
    if r.chance(1, 4) {
        let sg = if r.bool() { '+' } else { '-' };
        return match r.below(4) {
            0 => format!("{sg}{:02}:{:02}", r.below(100), r.below(100)),
            1 => format!("{sg}{:02}:{:02}:{:02}", r.below(100), r.below(100), r.below(100)),
            2 => format!("{sg}{:02}{:02}", r.below(100), r.below(100)),
            _ => format!("{sg}{:02}", r.below(100)),
        };
    }
    let mut s = String::new();
    if r.chance(1, 4) {
        s.push('-');
    }
    for k in 0..1 + r.below(4) {
        if k > 0 {
            s.push(' ');
        }
        let v = match r.below(4) {
            0 => format!("{}", r.below(1000)),
            1 => format!("{}.{}", r.below(1000), r.below(1000)),
            2 => format!("{}e{}", r.below(100), r.range_i64(-30, 330)),
            _ => format!("{}", r.u64()),
        };
        s.push_str(&format!("{} {}", v, r.pick(&super::c11::SPELLINGS).0));
    }
    s
}

const TOKENS: [&str; 17] = ["%Y", "%y", "%m", "%b", "%B", "%d", "%j", "%J", "%A", "%a", "%H", "%M", "%S", "%f", "%T", "%w", "%z"];
const SEPS: [&str; 12] = ["-", "/", ":", ".", ",", "T", " ", "_", "", "", ", ", "  "];

fn gen_format(r: &mut Rng) -> String {
    let n = 1 + r.below(18);
    let mut s = String::new();
    for k in 0..n {
        s.push_str(*r.pick(&TOKENS));
        if r.chance(1, 10) {
            s.push('?');
        }
        if k + 1 < n || r.chance(1, 5) {
            s.push_str(*r.pick(&SEPS));
        }
    }
    if r.chance(1, 10) {
        s.push_str(*r.pick(&["%", "%%", "%Q", "%é", "% Y"]));
    }
    s
}

const DOC_FORMATS: [&str; 9] = [
    "%Y-%m-%dT%H:%M:%S.%f %T", "%Y-%m-%dT%H:%M:%S.%f? %T?", "%Y-%m-%dT%H:%M:%S.%f%z", "%Y-%m-%dT%H:%M:%S.%f?%z", "%Y-%m-%d", "%Y-%j", "%a, %d %b %Y %H:%M:%S", "%A, %d %B %Y %H:%M:%S", "%Y-%m-%dT%H:%M:%S.%f",
];

fn gen_name(r: &mut Rng) -> String {
    let base = match r.below(3) {
        0 => scale_name(*r.pick(&SCALES)).to_string(),
        1 => (*r.pick(&cal::WEEKDAYS)).to_string(),
        _ => (*r.pick(&cal::MONTHS)).to_string(),
    };
    match r.below(5) {
        0 => base.to_uppercase(),
        1 => base.to_lowercase(),
        2 => base.chars().take(3).collect(),
        3 => format!(" {base} "),
        _ => base,
    }
}

/// feeds one string to all entry points
pub fn feed(rep: &mut Rep, s: &str, fmt_str: &str, class: &str, nontrivial: bool) {
    if !rep.tick() {
        return;
    }
    rep.class(class);
    if !s.is_ascii() {
        rep.class("str/non-ascii");
    }
    if nontrivial || !s.is_ascii() {
        rep.nt(hstr(s) ^ hstr(fmt_str).rotate_left(17));
    }
    rep.sample(class, || format!("input {:?} with format {:?}", s, fmt_str));
    let mut any_ok = false;
    let mut any_err = false;
    let mut run = |rep: &mut Rep, name: &str, f: &dyn Fn() -> bool| match guard(|| f()) {
        Err(p) => {
            let sig = format!("{name}/panic/{}", p.class());
            rep.fail(&sig, None, || format!("{name} on input {:?} (format {:?}) panicked: {} at {}", s, fmt_str, p.msg, p.loc));
        }
        Ok(true) => any_ok = true,
        Ok(false) => any_err = true,
    };
    run(rep, "Epoch::from_str", &|| Epoch::from_str(s).is_ok());
    run(rep, "Epoch::from_gregorian_str", &|| Epoch::from_gregorian_str(s).is_ok());
    run(rep, "Epoch::from_format_str", &|| Epoch::from_format_str(s, fmt_str).is_ok());
    run(rep, "Format::from_str", &|| Format::from_str(s).is_ok());
    run(rep, "Format::from_str", &|| Format::from_str(fmt_str).is_ok());
    run(rep, "Format::parse+from_str_with_format", &|| match Format::from_str(fmt_str) {
        Ok(f) => {
            let a = f.parse(s).is_ok();
            let b = Epoch::from_str_with_format(s, f).is_ok();
            a && b
        }
        Err(_) => false,
    });
    run(rep, "Epoch::from_format_str(as-format)", &|| Epoch::from_format_str("2022-03-04T05:06:07.000000008 UTC", s).is_ok());
    run(rep, "Duration::from_str", &|| Duration::from_str(s).is_ok());
    run(rep, "TimeScale::from_str", &|| TimeScale::from_str(s).is_ok());
    run(rep, "Weekday::from_str", &|| Weekday::from_str(s).is_ok());
    run(rep, "MonthName::from_str", &|| MonthName::from_str(s).is_ok());
    if any_ok {
        rep.class("outcome/ok");
    }
    if any_err {
        rep.class("outcome/err");
    }
}

/// well-formed ISO text with one field out of range must be rejected by the epoch parsers
pub fn check_out_of_range(rep: &mut Rep, y: i64, m: u32, d: u32, h: u32, mi: u32, sec: u32, suffix: &str, what: &str) {
    if !rep.tick() {
        return;
    }
    rep.class("str/out-of-range-field");
    let base = format!("{:04}-{:02}-{:02}T{:02}:{:02}:{:02}", y, m, d, h, mi, sec);
    let s = format!("{}{}", base, suffix);
    // what the suffix adds to the denoted reading (known-finding matching only)
    let extra: i128 = match suffix {
        "+01:00" => -NS_H,
        ".5 TT" => NS_S / 2,
        _ => 0,
    };
    rep.nt(hstr(&s));
    rep.sample("str/out-of-range-field", || format!("{:?} ({what}) must be Err", s));
    let leap_feb30 = m == 2 && (d == 30 || d == 31) && cal::is_leap(y) && h < 24 && mi < 60 && sec < 60;
    for (name, f) in [
        ("Epoch::from_str", Box::new(|| Epoch::from_str(&s)) as Box<dyn Fn() -> Result<Epoch, hifitime::HifitimeError>>),
        ("Epoch::from_gregorian_str", Box::new(|| Epoch::from_gregorian_str(&s))),
        ("Epoch::from_format_str", Box::new(|| Epoch::from_format_str(&base, "%Y-%m-%dT%H:%M:%S"))),
    ] {
        let extra = if name == "Epoch::from_format_str" { 0 } else { extra };
        match guard(|| f()) {
            Err(p) => rep.fail(&format!("{name}/panic/{}", p.class()), None, || format!("{name}({:?}) panicked: {} at {}", s, p.msg, p.loc)),
            Ok(Ok(e)) => {
                let mut fid = None;
                if leap_feb30 {
                    let ts = e.time_scale;
                    let f29 = Fields { y, m: 2, d: 29, h, mi, s: sec, ns: 0 };
                    if count_d(e.duration) == count_of(&f29, ts) + (d as i128 - 29) * NS_D + extra {
                        fid = Some("F25-feb-30-leap-year");
                    }
                }
                rep.fail(&format!("{name}/accepted-out-of-range/{what}"), fid, || format!("{name}({:?}) = Ok({}) although {what} is out of range", s, e));
            }
            Ok(Err(_)) => {}
        }
    }
}

/// other well-formed texts with one field out of range: UTC offsets and day-of-year formats
pub fn check_out_of_range_text(rep: &mut Rep, s: &str, fmt: Option<&str>, what: &str) {
    if !rep.tick() {
        return;
    }
    rep.class("str/out-of-range-field");
    rep.nt(hstr(s));
    rep.sample("str/out-of-range-other", || format!("{:?} (format {:?}; {what}) must be Err", s, fmt));
    let r = guard(|| match fmt {
        Some(f) => vec![("Epoch::from_format_str", Epoch::from_format_str(s, f)), ("Format::parse", Format::from_str(f).map_err(|_| hifitime::HifitimeError::InvalidGregorianDate).and_then(|ff| ff.parse(s)))],
        None => vec![("Epoch::from_str", Epoch::from_str(s)), ("Epoch::from_gregorian_str", Epoch::from_gregorian_str(s))],
    });
    match r {
        Err(p) => rep.fail(&format!("out-of-range/panic/{}", p.class()), None, || format!("parsing {:?} panicked: {} at {}", s, p.msg, p.loc)),
        Ok(v) => {
            for (name, res) in v {
                if let Ok(e) = res {
                    rep.fail(&format!("{name}/accepted-out-of-range/{what}"), None, || format!("{name}({:?}, format {:?}) = Ok({}) although {what} is out of range", s, fmt, e));
                }
            }
        }
    }
}

pub fn run(cfg: &Cfg, rep: &mut Rep) {
    let sh = rep.shard as usize;
    let n = NSHARDS as usize;
    let mut r = Rng::new(cfg.seed, 0x1300 + sh as u64);
    // The lattices below do not depend on the random budget. A flavour that divides the budget by thousands (Miri: four
    // orders of magnitude slower) takes one lattice item in `stride`, a different one per seed.
    let stride = ((cfg.budget_div / 40).max(1)) as usize;
    let phase = cfg.seed as usize;
    // out-of-range lattice
    let mut i = 0usize;
    for k in 0..400i64 {
        i += 1;
        if i % n != sh || cfg.fuzz || (i / n) % stride != phase % stride {
            continue;
        }
        let y = 1600 + k * 2 + (k % 3);
        let suffix = ["", "Z", " UTC", " TAI", "+01:00", " GPST", ".5 TT"][(k % 7) as usize];
        let (m, d) = (1 + (k % 12) as u32, 1 + (k % 28) as u32);
        for bad in [0u32, 13, 99, 256 + m, 65_536 + m] {
            check_out_of_range(rep, y, bad, d, 10, 20, 30, suffix, "month");
        }
        for bad in [0u32, 32, 99, 256 + d, 65_536 + d] {
            check_out_of_range(rep, y, m, bad, 10, 20, 30, suffix, "day");
        }
        check_out_of_range(rep, y, 2, 30, 10, 20, 30, suffix, "30 February");
        check_out_of_range(rep, y, 2, 31, 10, 20, 30, suffix, "31 February");
        if !cal::is_leap(y) {
            check_out_of_range(rep, y, 2, 29, 10, 20, 30, suffix, "29 February of a non-leap year");
        }
        check_out_of_range(rep, y, 4 + 2 * (k % 2) as u32 + if k % 4 < 2 { 0 } else { 5 }, 31, 10, 20, 30, suffix, "31st of a 30-day month");
        for bad in [25u32, 99, 256 + 10, 65_536 + 10] {
            check_out_of_range(rep, y, m, d, bad, 20, 30, suffix, "hour");
        }
        for bad in [60u32, 99, 256 + 20, 65_536 + 20] {
            check_out_of_range(rep, y, m, d, 10, bad, 30, suffix, "minute");
        }
        for bad in [61u32, 99, 256 + 30, 65_536 + 30] {
            check_out_of_range(rep, y, m, d, 10, 20, bad, suffix, "second");
        }
        // UTC offsets: hours 24..99, minutes 60..99
        let base = format!("{:04}-{:02}-{:02}T10:20:30", y, m, d);
        let sg = if k % 2 == 0 { '+' } else { '-' };
        let tail = if k % 3 == 0 { " TAI" } else { "" };
        for (hh, mm, what) in [(24u32, 0u32, "offset hours"), (99, 0, "offset hours"), (1, 60, "offset minutes"), (0, 99, "offset minutes"), (23, 60, "offset minutes")] {
            check_out_of_range_text(rep, &format!("{base}{sg}{:02}:{:02}{tail}", hh, mm), None, what);
            // the same offset in the other spellings people write (ISO 8601 basic +HHMM, one-digit hours, blanks, seconds
            // appended): whether a parser knows the spelling or not, an out-of-range field in it never yields an epoch
            for alt in [format!("{sg}{:02}{:02}", hh, mm), format!("{sg}{:02}{:02}Z", hh, mm), format!(" {sg}{:02}:{:02}", hh, mm), format!("{sg}{:02}:{:02}:00", hh, mm), format!("{sg}{:02}.{:02}", hh, mm), format!("{sg}{:02}h{:02}", hh, mm)] {
                check_out_of_range_text(rep, &format!("{base}{alt}{tail}"), None, what);
                check_out_of_range_text(rep, &format!("{base}.25{alt}{tail}"), None, what);
            }
            // (Format::parse does not read %z offsets at all - known finding F24 - so only the ISO parsers are judged here)
        }
        // day-of-year formats
        let ylen = if cal::is_leap(y) { 366 } else { 365 };
        for (doy, what) in [(0i64, "day of year 0"), (ylen + 1, "day of year beyond the year"), (367, "day of year 367"), (999, "day of year 999")] {
            // (the ISO 8601 ordinal spelling through the format-less parsers too: known to them or not, never an epoch)
            check_out_of_range_text(rep, &format!("{:04}-{:03}", y, doy), None, what);
            check_out_of_range_text(rep, &format!("{:04}-{:03}T10:20:30", y, doy), None, what);
            check_out_of_range_text(rep, &format!("{:04}-{:03} TAI", y, doy), None, what);
            check_out_of_range_text(rep, &format!("{:04}-{:03}", y, doy), Some("%Y-%j"), what);
            check_out_of_range_text(rep, &format!("{:04}-{:03}T10:20:30", y, doy), Some("%Y-%jT%H:%M:%S"), what);
        }
        for (doy, what) in [("0", "day of year 0"), ("0.5", "day of year below 1"), ("367", "day of year 367"), ("367.5", "day of year 367"), ("999", "day of year 999"), ("400.25", "day of year beyond the year")] {
            check_out_of_range_text(rep, &format!("{:04} {}", y, doy), Some("%Y %J"), what);
        }
        // the day of year in front of the year (it cannot be validated before the year has been read)
        for (doy, what) in [(0i64, "day of year 0"), (ylen + 1, "day of year beyond the year"), (367, "day of year 367"), (999, "day of year 999")] {
            check_out_of_range_text(rep, &format!("{:03} {:04}", doy, y), Some("%j %Y"), what);
            check_out_of_range_text(rep, &format!("{:03}/{:04} 10:20:30", doy, y), Some("%j/%Y %H:%M:%S"), what);
            check_out_of_range_text(rep, &format!("10:20:30 {:03} {:04}", doy, y), Some("%H:%M:%S %j %Y"), what);
            check_out_of_range_text(rep, &format!("{} {:04}", doy, y), Some("%J %Y"), what);
            check_out_of_range_text(rep, &format!("{}.5 {:04}", doy.max(ylen + 1), y), Some("%J %Y"), "day of year beyond the year");
        }
        check_out_of_range_text(rep, &format!("{:04} {}", y, ylen + 1), Some("%Y %J"), "day of year beyond the year");
        check_out_of_range_text(rep, &format!("{:04} {}.75", y, ylen + 1), Some("%Y %J"), "day of year beyond the year");
        let doy = 1 + (k * 7) % 365;
        for (h, mi, sc, what) in [(25u32, 0u32, 0u32, "hour"), (10, 60, 0, "minute"), (10, 20, 61, "second"), (99, 0, 0, "hour"), (10, 99, 0, "minute")] {
            check_out_of_range_text(rep, &format!("{:04}-{:03}T{:02}:{:02}:{:02}", y, doy, h, mi, sc), Some("%Y-%jT%H:%M:%S"), what);
            check_out_of_range_text(rep, &format!("{:02}:{:02}:{:02} {:03}/{:04}", h, mi, sc, doy, y), Some("%H:%M:%S %j/%Y"), what);
        }
    }
    if !cfg.fuzz {
        single_edit_lattice(rep, sh, n, stride, phase);
    }
    // second 60 in text form: accepted only at 23:59 of a day on which a leap second was inserted (C08's partition)
    let tab = crate::model::leap::table();
    for y in 1960..=2030i64 {
        if (y as usize) % n != sh || cfg.fuzz || (y as usize / n) % stride != phase % stride {
            continue;
        }
        for (m, d) in [(6u32, 30u32), (12, 31), (3, 31), (9, 30), (6, 29), (1, 1)] {
            for (h, mi) in [(23u32, 59u32), (23, 58), (12, 59), (0, 0), (22, 59), (0, 59), (18, 29), (23, 0)] {
                let (want, _) = super::c08::classify(&tab, y, m, d, h, mi, 60, 0);
                if want == super::c08::Want::Reject {
                    for suffix in ["", " UTC", " TAI", "Z"] {
                        check_out_of_range(rep, y, m, d, h, mi, 60, suffix, "second 60 without a leap second");
                    }
                    // ... and next to a UTC offset: rejected whenever neither the wall clock nor the instant it denotes
                    // (wall clock minus offset) is 23:59 of an insertion day
                    for (oh, om) in [(1i64, 0i64), (-1, 0), (5, 30), (-3, -30), (23, 0), (-23, 0), (0, 1), (0, -1)] {
                        let off = oh * 60 + om;
                        let wall = h as i64 * 60 + mi as i64;
                        let day0 = cal::days_from_1900(y, m, d);
                        let lands = |shift: i64| {
                            let t = wall + shift;
                            let (dd, tt) = (day0 + t.div_euclid(1440), t.rem_euclid(1440));
                            let (yy, mm, d2) = cal::civil_from_days_1900(dd);
                            tt == 23 * 60 + 59 && super::c08::classify(&tab, yy, mm, d2, 23, 59, 60, 0).0 != super::c08::Want::Reject
                        };
                        // (wall clock at 23:59 of an insertion day: accepted today whatever the offset, left open; wall clock
                        // minus offset there: a real leap second written in local time, left open; wall clock *plus* offset
                        // there is the wrong-way shift and denotes no leap second: must be rejected like any other time)
                        if lands(0) || lands(-off) {
                            continue;
                        }
                        if lands(off) {
                            rep.class("str/second-60-only-the-wrong-way-shift-is-a-leap-second");
                        }
                        let txt = format!("{:04}-{:02}-{:02}T{:02}:{:02}:60{}{:02}:{:02}", y, m, d, h, mi, if off < 0 { '-' } else { '+' }, off.abs() / 60, off.abs() % 60);
                        check_out_of_range_text(rep, &txt, None, "second 60 without a leap second");
                    }
                    check_out_of_range_text(rep, &format!("{:04}-{:03}T{:02}:{:02}:60", y, cal::days_from_1900(y, m, d) - cal::days_from_1900(y, 1, 1) + 1, h, mi), Some("%Y-%jT%H:%M:%S"), "second 60 without a leap second");
                } else if want == super::c08::Want::Accept {
                    rep.class("str/real-leap-second");
                    feed(rep, &format!("{:04}-{:02}-{:02}T23:59:60 UTC", y, m, d), "%Y-%m-%dT%H:%M:%S %T", "str/valid-iso", true);
                }
            }
        }
    }
    // the minute in which a leap second can be inserted - 23:59 on 30 June and 31 December - of every year 1..=9999, with
    // second 00, 59 and 60: whatever table decides about second 60 is consulted for every year, not only for those it lists
    for y in 1..=9999i64 {
        if (y as usize) % n != sh || cfg.fuzz || (y as usize / n) % stride != phase % stride {
            continue;
        }
        for (m, d) in [(6u32, 30u32), (12, 31)] {
            for sec in [0u32, 59, 60] {
                let txt = format!("{:04}-{:02}-{:02}T23:59:{:02}", y, m, d, sec);
                let (want, _) = super::c08::classify(&tab, y, m, d, 23, 59, sec, 0);
                if want == super::c08::Want::Reject {
                    check_out_of_range(rep, y, m, d, 23, 59, sec, ["", " UTC", " TAI", "Z"][(y % 4) as usize], "second 60 without a leap second");
                } else {
                    feed(rep, &txt, "%Y-%m-%dT%H:%M:%S", "str/leap-minute-of-every-year", true);
                    feed(rep, &format!("{}, {:02} {} {:04} 23:59:{:02}", ["Mon", "Tue", "Wed", "Thu", "Fri", "Sat", "Sun"][(cal::days_from_1900(y, m, d).rem_euclid(7)) as usize], d, if m == 6 { "Jun" } else { "Dec" }, y, sec), "%a, %d %b %Y %H:%M:%S", "str/leap-minute-of-every-year", true);
                }
            }
        }
    }
    // every one-letter token (known or not, with and without '?') after 0..=20 known tokens: a format specification is a
    // value or an error at every fill level of its fixed-size item table, whatever the letter expands to
    if !cfg.fuzz {
        let known = ["%Y", "%m", "%d", "%H", "%M", "%S", "%f", "%j", "%A", "%a", "%B", "%b", "%T", "%z", "%y", "%w", "%J"];
        let mut li = 0usize;
        for fill in 0..=20usize {
            let mut prefix = String::new();
            for j in 0..fill {
                prefix.push_str(known[(j * 5 + fill) % known.len()]);
                prefix.push(['-', ' ', ':', 'T', '/'][j % 5]);
            }
            for c in 0x21u8..0x7f {
                li += 1;
                if li % n != sh || (li / n) % stride != phase % stride {
                    continue;
                }
                for tail in ["", "?", " %Y", "-%d %H"] {
                    let f = format!("{prefix}%{}{tail}", c as char);
                    feed(rep, "2022-01-01T10:20:30", &f, "fmt/letter-at-fill-level", true);
                }
            }
        }
    }
    // formats that fill the fixed-size item table (and one short of it / beyond it), with and without a separator after the
    // last token, read against the formatter's own output with every kind of ending: complete, cut short, the closing
    // character replaced or followed by something else. A look-ahead or look-behind by one item is in range everywhere but here.
    if !cfg.fuzz {
        let cyc = ["%Y", "%m", "%d", "%H", "%M", "%S", "%j", "%f", "%y"];
        let seps = ['-', '-', ' ', ':', ':', ' ', '/', '.', ' '];
        let mut li = 0usize;
        for ntok in 13..=18usize {
            for var in 0..3usize {
                for last_sep in ["", ";", " ", ":", "-", "T", "?", "%"] {
                    li += 1;
                    if li % n != sh || (li / n) % stride != phase % stride {
                        continue;
                    }
                    let mut f = String::new();
                    for j in 0..ntok {
                        let t = match var {
                            0 => cyc[j % 6],
                            1 => cyc[j % 9],
                            _ => cyc[(j * 2 + 1) % 9],
                        };
                        f.push_str(t);
                        if j + 1 < ntok {
                            f.push(seps[j % 9]);
                        }
                    }
                    f.push_str(last_sep);
                    let e = Epoch::from_duration(mk(3_786_825_600_123_456_789 + li as i128 * 86_461_000_000_007), TimeScale::UTC);
                    let ff = f.clone();
                    let out = guard(move || match Format::from_str(&ff) {
                        Ok(fm) => format!("{}", Formatter::new(e, fm)),
                        Err(_) => String::new(),
                    })
                    .unwrap_or_default();
                    let base = if out.is_empty() { "2020-01-02 03:04:05 2020-01-02 03:04:05 2020-01-02 03".to_string() } else { out };
                    rep.class("fmt/table-full");
                    feed(rep, &base, &f, "fmt/table-full", true);
                    let cut = base.trim_end_matches(|c: char| !c.is_ascii_digit()).to_string();
                    for tailc in ["", "x", ":", "-", "/", ".", "T", "+", " ", "9", ";", "\u{e9}", "?", "%", "Z", " UTC", ";;", "x9"] {
                        feed(rep, &format!("{cut}{tailc}"), &f, "fmt/table-full", true);
                        feed(rep, &format!("{base}{tailc}"), &f, "fmt/table-full", true);
                    }
                    for c in 1..base.len().min(12) {
                        if base.is_char_boundary(base.len() - c) {
                            feed(rep, &base[..base.len() - c], &f, "fmt/table-full", true);
                        }
                    }
                }
            }
        }
    }
    // extreme years and integer-width boundary fields in otherwise well-formed texts: value or Err, never a panic
    if sh == 1 {
        let mut xi = 0usize;
        for y in ["2147483647", "2147483646", "-2147483648", "-2147483647", "2147483648", "5879611", "5879610", "-5877711", "99999999999"] {
            for rest in ["-12-31T23:59:59", "-12-31T23:59:60", "-06-30T23:59:60", "-01-01T00:00:00", "-02-29T12:00:00 TAI", "-12-31T23:59:59.999999999 ET", "-12-31T23:59:59+23:59"] {
                // (the slow auxiliary flavours take one of these in `stride`: a year loop of millions of iterations costs Miri minutes)
                xi += 1;
                if stride > 1 && xi % stride.min(60) != phase % stride.min(60) {
                    continue;
                }
                let t = format!("{y}{rest}");
                feed(rep, &t, "%Y-%m-%dT%H:%M:%S", "str/extreme-year", true);
                feed(rep, &format!("{y}-366"), "%Y-%j", "str/extreme-year", true);
                feed(rep, &format!("{y}-12-31"), "%y-%m-%d", "str/extreme-year", true);
            }
        }
    }
    let nrand = cfg.budget(2_400_000);
    let mut fmts: Vec<String> = DOC_FORMATS.iter().map(|s| s.to_string()).collect();
    for _ in 0..if cfg.fuzz { 2 } else { 200 } {
        fmts.push(gen_format(&mut r));
    }
    for k in 0..nrand {
        let k = cfg.k(k, &mut r);
        let fmt_str = if r.chance(1, 3) { gen_format(&mut r) } else { r.pick(&fmts).clone() };
        let (base, cls): (String, &str) = match k % 8 {
            0 | 1 => (gen_iso(&mut r), "str/valid-iso"),
            2 => (gen_numeric(&mut r), "str/numeric-form"),
            3 => (gen_duration(&mut r), "str/duration"),
            4 => (gen_format(&mut r), "str/format-string"),
            5 | 6 => {
                // the formatter's own output for a random epoch and this format
                let s = crate::gen::rand_scale(&mut r);
                let c = crate::gen::rand_reading(&mut r, s, &[0]);
                let e = Epoch::from_duration(mk(c), s);
                let out = guard(|| match Format::from_str(&fmt_str) {
                    Ok(f) => {
                        use std::fmt::Write;
                        let mut o = String::new();
                        let _ = write!(o, "{}", Formatter::new(e, f));
                        o
                    }
                    Err(_) => String::new(),
                });
                match out {
                    Ok(o) if !o.is_empty() => (o, "str/formatter-output"),
                    _ => (gen_iso(&mut r), "str/valid-iso"),
                }
            }
            _ => (gen_name(&mut r), "str/name"),
        };
        // the pristine string, then mutations of it
        feed(rep, &base, &fmt_str, cls, cls == "str/formatter-output");
        if cls == "str/formatter-output" || r.chance(1, 4) {
            rep.class("pair/format-input");
        }
        let nm = 1 + r.below(3);
        for _ in 0..nm {
            let m = mutate(&mut r, &base);
            let f2 = if r.chance(1, 4) { mutate(&mut r, &fmt_str) } else { fmt_str.clone() };
            feed(rep, &m, &f2, "str/mutated", true);
        }
    }
}
