//! C11 Duration decomposition and text form are exact and parse back identically.
use crate::core::*;
use crate::model::dur::*;
use crate::model::text;
use crate::props::c18::model_in;
use hifitime::{Duration, Epoch, TimeScale, Unit};
use std::str::FromStr;

pub fn meta() -> Meta {
    Meta {
        rule: "events = decompose / subdivision / Display / from_str(Display) / serde_json round trip / Epoch::hours()..nanoseconds() on one duration with |count| <= 10000 years, and from_str on harness-built texts: every spelling of the unit table x {1-digit, 2-digit, 3-digit, fractional} values with and without leading '-', multi-unit texts, and [+-]HH:MM[:SS] / [+-]HHMM offsets. Expected: integer div/mod of |count|, harness-built text (M-TEXT), identical parts after parsing, single-unit fractional text == the C18 float product. Generation: k*U+d for every unit U, k in 1..1000 exhaustively then log-spaced, d in -3..3; values around 2^53, 2^63, 2^64 ns; stratified random; both signs. Non-trivial = |count| >= 2^53 ns, within 3 ns of a unit multiple, negative, multi-byte unit text, offset text; distinct = distinct count / text hashes among those. Round 6: fractional values whose whole part has any digit count the unit allows within 10 000 years.",
        assumptions: &["sign of decompose: only (sign < 0) == (count < 0) is demanded (the existing suite fixes 0 for positive sub-century values)"],
        mandatory: &["dur/near-unit-multiple", "dur/beyond-2^53", "dur/negative", "text/micro-sign", "text/spelling", "text/fractional", "text/offset", "text/negative-multi-unit"],
        thorough_scale: 50,
        exhaustive_part: "k*U+d for nine units, k=1..1000, d=-3..3, both signs; all 25 unit spellings x 4 value shapes x 2 signs; offsets HH 00..29 x MM 00..59 x {+,-} in [+-]HH:MM form",
    }
}

pub const SPELLINGS: [(&str, Unit); 25] = [
    ("d", Unit::Day), ("days", Unit::Day), ("day", Unit::Day),
    ("h", Unit::Hour), ("hours", Unit::Hour), ("hour", Unit::Hour), ("hr", Unit::Hour),
    ("min", Unit::Minute), ("mins", Unit::Minute), ("minute", Unit::Minute), ("minutes", Unit::Minute),
    ("s", Unit::Second), ("second", Unit::Second), ("seconds", Unit::Second), ("sec", Unit::Second),
    ("ms", Unit::Millisecond), ("millisecond", Unit::Millisecond), ("milliseconds", Unit::Millisecond),
    ("μs", Unit::Microsecond), ("us", Unit::Microsecond), ("microsecond", Unit::Microsecond), ("microseconds", Unit::Microsecond),
    ("ns", Unit::Nanosecond), ("nanosecond", Unit::Nanosecond), ("nanoseconds", Unit::Nanosecond),
];

pub fn check_dur(rep: &mut Rep, c: i128) {
    if !rep.tick() {
        return;
    }
    let d = mk(c);
    let p = d.to_parts();
    let a = c.unsigned_abs();
    let mut nt = false;
    if a >= 1 << 53 {
        rep.class("dur/beyond-2^53");
        nt = true;
    }
    if c < 0 {
        rep.class("dur/negative");
        nt = true;
    }
    for u in [NS_US, NS_MS, NS_S, NS_MIN, NS_H, NS_D] {
        let m = (a % u as u128) as i128;
        if a >= u as u128 - 3 && (m <= 3 || m >= u - 3) {
            rep.class("dur/near-unit-multiple");
            nt = true;
            break;
        }
    }
    if nt {
        rep.nt(h64(&[1, p.0 as u64, p.1]));
    }
    let w = text::decompose_abs(a);
    let wtxt = text::dur_display(c);
    rep.sample("dur", || format!("{} => {:?} / {:?}", fmt_parts(p), w, wtxt));
    // decompose
    match guard(|| d.decompose()) {
        Err(e) => rep.fail(&format!("decompose/panic/{}", e.class()), None, || format!("{}.decompose() panicked: {}", fmt_parts(p), e.msg)),
        Ok(g) => {
            let gv = (g.1, g.2, g.3, g.4, g.5, g.6, g.7);
            if gv != w {
                rep.fail("decompose/value", None, || format!("{}.decompose() = {:?} want {:?}", fmt_parts(p), g, w));
            }
            if (g.0 < 0) != (c < 0) {
                rep.fail("decompose/sign", None, || format!("{}.decompose() sign {} for count {}", fmt_parts(p), g.0, c));
            }
        }
    }
    // subdivision
    let subs = [(Unit::Day, w.0, NS_D), (Unit::Hour, w.1, NS_H), (Unit::Minute, w.2, NS_MIN), (Unit::Second, w.3, NS_S), (Unit::Millisecond, w.4, NS_MS), (Unit::Microsecond, w.5, NS_US), (Unit::Nanosecond, w.6, 1)];
    match guard(|| {
        let mut v = vec![];
        for (u, _, _) in subs.iter() {
            v.push(d.subdivision(*u).map(|x| count_d(x)));
        }
        (v, d.subdivision(Unit::Week), d.subdivision(Unit::Century))
    }) {
        Err(e) => rep.fail(&format!("subdivision/panic/{}", e.class()), None, || format!("{}.subdivision() panicked: {}", fmt_parts(p), e.msg)),
        Ok((v, wk, ce)) => {
            for (i, (u, val, f)) in subs.iter().enumerate() {
                if v[i] != Some(*val as i128 * f) {
                    rep.fail("subdivision/value", None, || format!("{}.subdivision({:?}) = {:?} want {}", fmt_parts(p), u, v[i], *val as i128 * f));
                }
            }
            // subdivision(Week | Century) is documented as None, but no property statement says so: not judged
            let _ = (wk, ce);
        }
    }
    // Display, parse(Display), serde
    match guard(|| format!("{}", d)) {
        Err(e) => rep.fail(&format!("display/panic/{}", e.class()), None, || format!("Display of {} panicked: {}", fmt_parts(p), e.msg)),
        Ok(s) => {
            if s != wtxt {
                rep.fail("display/value", None, || format!("Display of {} = {:?} want {:?}", fmt_parts(p), s, wtxt));
            }
            match guard(|| Duration::from_str(&s)) {
                Err(e) => rep.fail(&format!("parse-display/panic/{}", e.class()), None, || format!("from_str({:?}) panicked: {}", s, e.msg)),
                Ok(Err(e)) => rep.fail("parse-display/err", None, || format!("from_str({:?}) (Display of {}) = Err({:?})", s, fmt_parts(p), e)),
                Ok(Ok(g)) => {
                    if g.to_parts() != p {
                        rep.fail("parse-display/value", None, || format!("from_str({:?}) = {} want {}", s, fmt_parts(g.to_parts()), fmt_parts(p)));
                    }
                }
            }
        }
    }
    // own text -> parse
    match guard(|| Duration::from_str(&wtxt)) {
        Err(e) => rep.fail(&format!("parse-model-text/panic/{}", e.class()), None, || format!("from_str({:?}) panicked: {}", wtxt, e.msg)),
        Ok(Err(e)) => rep.fail("parse-model-text/err", None, || format!("from_str({:?}) = Err({:?})", wtxt, e)),
        Ok(Ok(g)) => {
            if g.to_parts() != p {
                rep.fail("parse-model-text/value", None, || format!("from_str({:?}) = {} want {}", wtxt, fmt_parts(g.to_parts()), fmt_parts(p)));
            }
        }
    }
    // the other deserialisation routes of the same serialized form: an owned Value, a reader (no borrowing from the
    // input possible), and JSON text in which the non-ASCII unit letter is written as an escape (no borrowing either)
    match guard(|| {
        let v = serde_json::to_value(d).map_err(|e| format!("to_value: {e}"))?;
        let a: Duration = serde_json::from_value(v.clone()).map_err(|e| format!("from_value({v}): {e}"))?;
        let bytes = serde_json::to_vec(&d).map_err(|e| format!("to_vec: {e}"))?;
        let b: Duration = serde_json::from_reader(&bytes[..]).map_err(|e| format!("from_reader: {e}"))?;
        let esc = serde_json::to_string(&d).map_err(|e| e.to_string())?.replace('μ', "\\u03bc").replace(' ', "\\u0020");
        let c: Duration = serde_json::from_str(&esc).map_err(|e| format!("from_str({esc}): {e}"))?;
        Ok::<_, String>([a, b, c])
    }) {
        Err(e) => rep.fail(&format!("serde-routes/panic/{}", e.class()), None, || format!("serde routes of {} panicked: {}", fmt_parts(p), e.msg)),
        Ok(Err(e)) => rep.fail("serde-routes/err", None, || format!("deserialising the serialized form of {} failed: {}", fmt_parts(p), e)),
        Ok(Ok(v)) => {
            for (k, g) in v.iter().enumerate() {
                if g.to_parts() != p {
                    rep.fail("serde-routes/value", None, || format!("serde route {} (0 from_value, 1 from_reader, 2 escaped text) of {} gave {}", k, fmt_parts(p), fmt_parts(g.to_parts())));
                }
            }
        }
    }
    match guard(|| {
        let js = serde_json::to_string(&d).map_err(|e| e.to_string())?;
        let back: Duration = serde_json::from_str(&js).map_err(|e| format!("{js}: {e}"))?;
        Ok::<_, String>((js, back))
    }) {
        Err(e) => rep.fail(&format!("serde/panic/{}", e.class()), None, || format!("serde round trip of {} panicked: {}", fmt_parts(p), e.msg)),
        Ok(Err(e)) => rep.fail("serde/err", None, || format!("serde round trip of {} failed: {}", fmt_parts(p), e)),
        Ok(Ok((js, back))) => {
            if back.to_parts() != p {
                rep.fail("serde/value", None, || format!("serde {} -> {} -> {}", fmt_parts(p), js, fmt_parts(back.to_parts())));
            }
            if js != format!("\"{}\"", wtxt) {
                rep.fail("serde/text", None, || format!("serialized form {} want \"{}\"", js, wtxt));
            }
        }
    }
    // Epoch accessors expose the decomposition of the own-scale duration
    match guard(|| {
        let e = Epoch::from_duration(d, TimeScale::TAI);
        (e.hours(), e.minutes(), e.seconds(), e.milliseconds(), e.microseconds(), e.nanoseconds())
    }) {
        Err(e) => rep.fail(&format!("epoch-fields/panic/{}", e.class()), None, || format!("Epoch field accessors on {} panicked: {}", fmt_parts(p), e.msg)),
        Ok(g) => {
            if g != (w.1, w.2, w.3, w.4, w.5, w.6) {
                rep.fail("epoch-fields/value", None, || format!("Epoch({}).hours()..nanoseconds() = {:?} want {:?}", fmt_parts(p), g, w));
            }
        }
    }
}

pub fn check_text(rep: &mut Rep, s: &str, want: i128, class: &str) {
    check_text_tol(rep, s, want, class, None)
}

/// `alt` = (exact value denoted by the decimal text in ns as a rational num/den): for fractional values the statement says
/// "the value they denote", the rustdoc shows the float product; both readings (they differ by at most 1 ns) are accepted.
pub fn check_text_tol(rep: &mut Rep, s: &str, want: i128, class: &str, alt: Option<(i128, i128)>) {
    if !rep.tick() {
        return;
    }
    rep.class(class);
    rep.nt(hstr(s));
    rep.sample(class, || format!("from_str({:?}) => want count {}", s, want));
    match guard(|| Duration::from_str(s)) {
        Err(e) => rep.fail(&format!("parse-text/panic/{}", e.class()), None, || format!("from_str({:?}) panicked: {} at {}", s, e.msg, e.loc)),
        Ok(Err(e)) => rep.fail(&format!("parse-text/err/{class}"), None, || format!("from_str({:?}) = Err({:?}), want count {}", s, e, want)),
        Ok(Ok(g)) => {
            let alt_ok = match alt {
                Some((num, den)) => {
                    // |got - num/den| <= 1  <=>  |got*den - num| <= den
                    (count_d(g) * den - num).abs() <= den
                }
                None => false,
            };
            if (count_d(g) != clamp(want) && !alt_ok) || !is_canonical(g.to_parts()) {
                rep.fail(&format!("parse-text/value/{class}"), None, || format!("from_str({:?}) = {} (count {}), want count {}", s, fmt_parts(g.to_parts()), count_d(g), want));
            }
        }
    }
}

/// exact value of a decimal literal "a.b" times unit_ns, as a rational
fn decimal_times(v: &str, unit_ns: i128) -> Option<(i128, i128)> {
    if !v.contains('.') {
        // a whole value: exactly v units (a parser that reads the digits as an integer is right, one that goes through
        // a double is within float rounding of it - both are accepted by check_text_tol)
        return Some((v.parse::<i128>().ok()?.checked_mul(unit_ns)?, 1));
    }
    let (a, b) = v.split_once('.')?;
    let den = 10i128.checked_pow(b.len() as u32)?;
    let ai = if a.is_empty() { 0 } else { a.parse::<i128>().ok()? };
    let bi = if b.is_empty() { 0 } else { b.parse::<i128>().ok()? };
    let num = (ai * den + bi) * unit_ns;
    Some((num, den))
}

fn spelling_cases(rep: &mut Rep, r: &mut Rng, exhaustive: bool) {
    for (sp, u) in SPELLINGS.iter() {
        let vals: Vec<String> = if exhaustive {
            vec!["1".into(), "7".into(), "28".into(), "99".into(), "256".into(), "10.598".into(), "0.5".into(), "1.25".into(), ".5".into(), ".25".into(), "3.".into()]
        } else {
            vec![
                format!("{}", r.below(10)),
                format!("{}", 10 + r.below(90)),
                format!("{}", 100 + r.below(900)),
                format!("{}.{}", r.below(1000), r.below(1000)),
                format!("{}", r.below(100000)),
                {
                    // whole values of every digit count the unit allows within 10 000 years, and the integer-width
                    // thresholds (2^31, 2^32, 10^9, 10^10 ...) where they fit
                    let max = (100 * NPC / unit_ns(*u)) as u64;
                    let lit = *r.pick(&[2_147_483_647u64, 2_147_483_648, 4_294_967_295, 4_294_967_296, 5_000_000_000, 9_999_999_999, 10_000_000_000, 999_999_999, 1_000_000_000, 65_535, 65_536, 16_777_216, 16_777_217, 99_999, 100_000]);
                    let digits = 1 + r.below(format!("{max}").len() as u64) as u32;
                    let rnd = 10u64.pow(digits - 1) + r.below(9 * 10u64.pow(digits - 1));
                    let v = if r.bool() && lit <= max { lit } else { rnd.min(max) };
                    format!("{v}")
                },
                {
                    // a fractional value whose whole part has any number of digits the unit allows within 10 000 years (a
                    // route that switches to integer arithmetic for large counts must keep the fraction)
                    let max = (100 * NPC / unit_ns(*u)) as u64;
                    let digits = 1 + r.below(format!("{max}").len() as u64) as u32;
                    let whole = (10u64.pow(digits - 1) + r.below(9 * 10u64.pow(digits - 1))).min(max.saturating_sub(1));
                    let frac = *r.pick(&["5", "25", "75", "125", "0625", "1", "9", "001", "999"]);
                    format!("{whole}.{frac}")
                },
            ]
        };
        for v in vals {
            let x: f64 = v.parse().unwrap();
            let w = model_in(x, *u).unwrap();
            let cls = if sp.len() != sp.chars().count() { "text/micro-sign" } else if v.contains('.') { "text/fractional" } else { "text/spelling" };
            let alt = decimal_times(&v, unit_ns(*u));
            check_text_tol(rep, &format!("{v} {sp}"), w, cls, alt);
            check_text_tol(rep, &format!("-{v} {sp}"), -w, cls, alt.map(|(n, d)| (-n, d)));
            if exhaustive {
                check_text_tol(rep, &format!("  {v} {sp} "), w, cls, alt);
            }
        }
    }
}

fn multi_unit(rep: &mut Rep, r: &mut Rng) {
    // a subset of units in descending order, each once, integer values
    let order = [("days", NS_D), ("h", NS_H), ("min", NS_MIN), ("s", NS_S), ("ms", NS_MS), ("us", NS_US), ("ns", 1)];
    let alt = [["d", "day", "days"], ["h", "hr", "hours"], ["min", "mins", "minutes"], ["s", "sec", "seconds"], ["ms", "millisecond", "milliseconds"], ["us", "μs", "microseconds"], ["ns", "nanosecond", "nanoseconds"]];
    let mut s = String::new();
    let mut w: i128 = 0;
    for (i, (_, f)) in order.iter().enumerate() {
        if r.chance(1, 2) {
            let v = r.below(1000) as i128;
            if !s.is_empty() {
                s.push(' ');
            }
            s.push_str(&format!("{} {}", v, r.pick(&alt[i])));
            w += v * f;
        }
    }
    if r.chance(1, 4) {
        // a many-digit millisecond or microsecond component (exactly representable, see below) followed by small ones: the
        // sum must keep every nanosecond
        let big_ms = r.below(2) == 0;
        // v ms = v x 15625 x 2^6 ns and v us = v x 125 x 2^3 ns: a double holds the component exactly as long as the odd
        // part stays below 2^53, i.e. v < 5.7e11 ms or v < 7.2e13 us - also when the component itself is beyond 2^53 ns
        let v = if big_ms { 4_000_000_000 + r.below(400_000_000_000) } else { 4_000_000_000_000 + r.below(60_000_000_000_000) } as i128;
        let (u, f) = if big_ms { ("ms", NS_MS) } else { ("us", NS_US) };
        let (a, b) = (1 + r.below(999) as i128, 1 + r.below(999) as i128);
        let t = if big_ms { format!("{v} {u} {a} us {b} ns") } else { format!("{v} {u} {b} ns") };
        let wv = v * f + if big_ms { a * NS_US } else { 0 } + b;
        rep.class("text/multi-unit-many-digits");
        check_text(rep, &t, wv, "text/multi-unit");
        check_text(rep, &format!("-{t}"), -wv, "text/negative-multi-unit");
    }
    if s.is_empty() {
        return;
    }
    if r.bool() {
        check_text(rep, &format!("-{s}"), -w, "text/negative-multi-unit");
    } else {
        check_text(rep, &s, w, "text/multi-unit");
    }
}

fn offsets(rep: &mut Rep, hh: u32, mm: u32, ss: u32) {
    let w = hh as i128 * NS_H + mm as i128 * NS_MIN;
    // the constructor the offset texts denote
    for sign in [1i8, -1, 0, -128, 127] {
        let want = if sign < 0 { -w } else { w };
        match guard(|| Duration::from_tz_offset(sign, hh as i64, mm as i64)) {
            Err(e) => rep.fail(&format!("from_tz_offset/panic/{}", e.class()), None, || format!("from_tz_offset({sign},{hh},{mm}) panicked: {}", e.msg)),
            Ok(g) => {
                if count_d(g) != want || !is_canonical(g.to_parts()) {
                    rep.fail("from_tz_offset/value", None, || format!("from_tz_offset({sign},{hh},{mm}) = {} want count {}", fmt_parts(g.to_parts()), want));
                }
            }
        }
    }
    check_text(rep, &format!("+{:02}:{:02}", hh, mm), w, "text/offset");
    check_text(rep, &format!("-{:02}:{:02}", hh, mm), -w, "text/offset");
    check_text(rep, &format!("+{:02}{:02}", hh, mm), w, "text/offset");
    check_text(rep, &format!("-{:02}{:02}", hh, mm), -w, "text/offset");
    let w2 = w + ss as i128 * NS_S;
    check_text(rep, &format!("-{:02}:{:02}:{:02}", hh, mm, ss), -w2, "text/offset");
    check_text(rep, &format!("+{:02}:{:02}:{:02}", hh, mm, ss), w2, "text/offset");
}

pub fn run(cfg: &Cfg, rep: &mut Rep) {
    let sh = rep.shard as usize;
    let n = NSHARDS as usize;
    let ten_ky = 100 * NPC;
    let mut r = Rng::new(cfg.seed, 0x1100 + sh as u64);
    // exhaustive k*U+d
    let mut i = 0usize;
    for u in [1, NS_US, NS_MS, NS_S, NS_MIN, NS_H, NS_D, NS_W, NPC] {
        if cfg.fuzz {
            break;
        }
        let mut ks: Vec<i128> = (1..=1000).collect();
        let mut k = 1000f64;
        while (k as i128) * u < ten_ky {
            k *= 1.37;
            ks.push(k as i128);
        }
        for k in ks {
            for d in -3i128..=3 {
                i += 1;
                if i % n != sh {
                    continue;
                }
                let c = k * u + d;
                if c.abs() <= ten_ky {
                    check_dur(rep, c);
                    check_dur(rep, -c);
                }
            }
        }
    }
    for b in [1i128 << 53, 1 << 63, 1 << 64, 1 << 52, ten_ky, 0] {
        for d in -3i128..=3 {
            i += 1;
            if i % n == sh && (b + d).abs() <= ten_ky {
                check_dur(rep, b + d);
                check_dur(rep, -(b + d));
            }
        }
    }
    if sh == 0 {
        spelling_cases(rep, &mut r, true);
    }
    for hh in 0..30u32 {
        if cfg.fuzz {
            break;
        }
        for mm in 0..60u32 {
            i += 1;
            if i % n == sh {
                offsets(rep, hh, mm, (hh * 7 + mm) % 60);
            }
        }
    }
    let nrand = cfg.budget(4_000_000);
    for k in 0..nrand {
        let k = cfg.k(k, &mut r);
        let c = crate::gen::rand_count_within(&mut r, ten_ky);
        check_dur(rep, c);
        if k % 8 == 0 {
            multi_unit(rep, &mut r);
        }
        if k % 64 == 0 {
            spelling_cases(rep, &mut r, false);
        }
        if k % 16 == 0 {
            offsets(rep, r.below(100) as u32, r.below(60) as u32, r.below(60) as u32);
        }
    }
}
