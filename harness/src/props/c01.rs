//! C01 Duration arithmetic is exact to the nanosecond and saturates at the bounds.
use crate::core::*;
use crate::gen;
use crate::model::dur::*;
use hifitime::{Duration, Unit};

pub fn meta() -> Meta {
    Meta {
        rule: "events = one arithmetic call (a+b, a-b, -a, abs, a*q, q*a, a/q, +=, -=, a+/-Unit, a+/-=Unit) on operands built by Duration::from_parts from raw (i16,u64) parts and read back through to_parts(); expected = canonical parts of clamp(op on i128 counts). Generation: all ordered pairs of the boundary lattice (seed independent) plus stratified random pairs (uniform / log-magnitude / near unit multiples / near century boundaries) and i64 factors from {0,+-1,+-2,i64 limits,powers of two +-1,random}. Non-trivial = the case exercises carry, borrow, mixed signs, zero crossing, a century-boundary result, an operand in century -32768, saturation (low/high) or a factor/divisor applied to a duration below -1 century; distinct = distinct (op, operands) hashes among those.",
        assumptions: &[
            "operands are read through to_parts() (anchor convention: ns count forward into the century); constructor and accessor defects are judged by C02",
            "Rust i128 arithmetic and the closed-form model are correct",
        ],
        mandatory: &["add/carry", "sub/borrow", "add/mixed-sign", "add/sat-low", "add/sat-high", "sub/sat-low", "sub/sat-high", "neg/cent-min", "mul/below-minus-one-century", "div/below-minus-one-century", "mul/sat", "op/zero-crossing"],
        thorough_scale: 60,
        exhaustive_part: "all ordered pairs of the duration boundary lattice x {+,-,+=,-=} and lattice x factor lattice x {*,/}",
    }
}

fn judge(rep: &mut Rep, op: &str, got: Result<Duration, PanicInfo>, want: i128, alt: Option<(&str, i128)>, det: &dyn Fn() -> String) {
    match got {
        Err(p) => {
            let sig = format!("{op}/panic/{}", p.class());
            rep.fail(&sig, None, || format!("{} panicked: {} at {}", det(), p.msg, p.loc));
        }
        Ok(d) => {
            let parts = d.to_parts();
            if !is_canonical(parts) {
                rep.fail(&format!("{op}/noncanonical"), None, || format!("{} -> non-canonical {}", det(), fmt_parts(parts)));
            } else if parts != canon(want) {
                let mut f = None;
                if let Some((id, w2)) = alt {
                    if parts == canon(w2) {
                        f = Some(id);
                    }
                }
                rep.fail(&format!("{op}/value"), f, || {
                    format!("{} -> got {} (count {}), want {} (count {})", det(), fmt_parts(parts), count(parts), fmt_parts(canon(want)), clamp(want))
                });
            }
        }
    }
}

pub fn check_pair(rep: &mut Rep, a: Duration, b: Duration) {
    let (pa, pb) = (a.to_parts(), b.to_parts());
    let (ca, cb) = (count(pa), count(pb));
    let h = |op: u64| h64(&[op, pa.0 as u64, pa.1, pb.0 as u64, pb.1]);
    let det = |op: &'static str| move || format!("{} {op} {}", fmt_parts(pa), fmt_parts(pb));
    // ---- add
    if rep.tick() {
        let want = ca + cb;
        let mut nt = false;
        if pa.1 as i128 + pb.1 as i128 >= NPC {
            rep.class("add/carry");
            nt = true;
        }
        if (ca < 0) != (cb < 0) && ca != 0 && cb != 0 {
            rep.class("add/mixed-sign");
            nt = true;
            if (want < 0) != (ca < 0) || want == 0 {
                rep.class("op/zero-crossing");
            }
        }
        if want < MIN_NS {
            rep.class("add/sat-low");
            nt = true;
        } else if want > MAX_NS {
            rep.class("add/sat-high");
            nt = true;
        } else if want.rem_euclid(NPC) <= 3 || want.rem_euclid(NPC) >= NPC - 3 {
            rep.class("add/century-boundary-result");
            nt = true;
        }
        if pa.0 == i16::MIN || pb.0 == i16::MIN {
            rep.class("add/operand-cent-min");
            nt = true;
        }
        if nt {
            rep.nt(h(1));
        }
        rep.log_event("add", || format!("\"a\":[{},{}],\"b\":[{},{}],\"want\":\"{}\"", pa.0, pa.1, pb.0, pb.1, clamp(want)));
        rep.sample("add", || format!("{} + {} => want {}", fmt_parts(pa), fmt_parts(pb), fmt_parts(canon(want))));
        judge(rep, "add", guard(|| a + b), want, None, &det("+"));
    }
    if rep.tick() {
        judge(rep, "add_assign", guard(|| { let mut x = a; x += b; x }), ca + cb, None, &det("+="));
    }
    // ---- sub
    if rep.tick() {
        let want = ca - cb;
        let mut nt = false;
        if pa.1 < pb.1 {
            rep.class("sub/borrow");
            nt = true;
        }
        if (ca < 0) == (cb < 0) && (want < 0) != (ca < 0) {
            rep.class("op/zero-crossing");
            nt = true;
        }
        if want < MIN_NS {
            rep.class("sub/sat-low");
            nt = true;
        } else if want > MAX_NS {
            rep.class("sub/sat-high");
            nt = true;
        } else if want.rem_euclid(NPC) <= 3 || want.rem_euclid(NPC) >= NPC - 3 {
            rep.class("sub/century-boundary-result");
            nt = true;
        }
        if pa.0 == i16::MIN || pb.0 == i16::MIN {
            rep.class("sub/operand-cent-min");
            nt = true;
        }
        if nt {
            rep.nt(h(2));
        }
        rep.log_event("sub", || format!("\"a\":[{},{}],\"b\":[{},{}],\"want\":\"{}\"", pa.0, pa.1, pb.0, pb.1, clamp(want)));
        rep.sample("sub", || format!("{} - {} => want {}", fmt_parts(pa), fmt_parts(pb), fmt_parts(canon(want))));
        judge(rep, "sub", guard(|| a - b), want, None, &det("-"));
    }
    if rep.tick() {
        judge(rep, "sub_assign", guard(|| { let mut x = a; x -= b; x }), ca - cb, None, &det("-="));
    }
}

pub fn check_unary(rep: &mut Rep, a: Duration) {
    let pa = a.to_parts();
    let ca = count(pa);
    let det = |op: &'static str| move || format!("{op} {}", fmt_parts(pa));
    if rep.tick() {
        if pa.0 == i16::MIN {
            rep.class("neg/cent-min");
            rep.nt(h64(&[3, pa.0 as u64, pa.1]));
        } else if pa.0 == i16::MAX {
            rep.class("neg/cent-max");
            rep.nt(h64(&[3, pa.0 as u64, pa.1]));
        } else if pa.1 == 0 {
            rep.class("neg/whole-century");
            rep.nt(h64(&[3, pa.0 as u64, pa.1]));
        }
        rep.log_event("neg", || format!("\"a\":[{},{}],\"want\":\"{}\"", pa.0, pa.1, clamp(-ca)));
        rep.sample("neg", || format!("-{} => want {}", fmt_parts(pa), fmt_parts(canon(-ca))));
        judge(rep, "neg", guard(|| -a), -ca, None, &det("neg"));
    }
    if rep.tick() {
        if ca < 0 {
            rep.class("abs/negative");
            rep.nt(h64(&[4, pa.0 as u64, pa.1]));
        }
        judge(rep, "abs", guard(|| a.abs()), ca.abs(), None, &det("abs"));
    }
    for u in UNITS {
        let cu = unit_ns(u);
        if rep.tick() {
            judge(rep, "add_unit", guard(|| a + u), ca + cu, None, &|| format!("{} + {:?}", fmt_parts(pa), u));
        }
        if rep.tick() {
            judge(rep, "sub_unit", guard(|| a - u), ca - cu, None, &|| format!("{} - {:?}", fmt_parts(pa), u));
        }
        if rep.tick() {
            judge(rep, "add_assign_unit", guard(|| { let mut x = a; x += u; x }), ca + cu, None, &|| format!("{} += {:?}", fmt_parts(pa), u));
        }
        if rep.tick() {
            judge(rep, "sub_assign_unit", guard(|| { let mut x = a; x -= u; x }), ca - cu, None, &|| format!("{} -= {:?}", fmt_parts(pa), u));
        }
    }
}

fn sat_mul(a: i128, q: i128) -> i128 {
    match a.checked_mul(q) {
        Some(v) => v,
        None => {
            if (a < 0) != (q < 0) {
                i128::MIN
            } else {
                i128::MAX
            }
        }
    }
}

pub fn check_scalar(rep: &mut Rep, a: Duration, q: i64) {
    let pa = a.to_parts();
    let ca = count(pa);
    let f1 = f1_read(pa);
    let h = |op: u64| h64(&[op, pa.0 as u64, pa.1, q as u64]);
    if rep.tick() {
        let want = sat_mul(ca, q as i128);
        let mut nt = false;
        if pa.0 < -1 {
            rep.class("mul/below-minus-one-century");
            nt = true;
        }
        if want < MIN_NS || want > MAX_NS {
            rep.class("mul/sat");
            nt = true;
        }
        if q < 0 {
            rep.class("mul/negative-factor");
            nt = true;
        }
        if nt {
            rep.nt(h(5));
        }
        rep.log_event("mul", || format!("\"a\":[{},{}],\"q\":\"{}\",\"want\":\"{}\"", pa.0, pa.1, q, clamp(want)));
        rep.sample("mul", || format!("{} * {} => want {}", fmt_parts(pa), q, fmt_parts(canon(want))));
        judge(rep, "mul", guard(|| a * q), want, Some(("F1-mul", sat_mul(f1, q as i128))), &|| format!("{} * {}", fmt_parts(pa), q));
    }
    if rep.tick() {
        let want = sat_mul(ca, q as i128);
        judge(rep, "mul_rev", guard(|| q * a), want, Some(("F1-mul", sat_mul(f1, q as i128))), &|| format!("{} * {}", q, fmt_parts(pa)));
    }
    if q != 0 && rep.tick() {
        let want = ca / q as i128;
        let mut nt = false;
        if pa.0 < -1 {
            rep.class("div/below-minus-one-century");
            nt = true;
        }
        if ca % q as i128 != 0 {
            rep.class("div/inexact");
            nt = true;
        }
        if nt {
            rep.nt(h(6));
        }
        rep.log_event("div", || format!("\"a\":[{},{}],\"q\":\"{}\",\"want\":\"{}\"", pa.0, pa.1, q, clamp(want)));
        rep.sample("div", || format!("{} / {} => want {}", fmt_parts(pa), q, fmt_parts(canon(want))));
        judge(rep, "div", guard(|| a / q), want, Some(("F1-div", f1 / q as i128)), &|| format!("{} / {}", fmt_parts(pa), q));
    }
}

pub fn factor_lattice() -> Vec<i64> {
    let mut v = vec![0i64, 1, -1, 2, -2, 3, -3, 7, -7, 10, -10, 1000, -1000, i64::MAX, i64::MIN, i64::MAX - 1, i64::MIN + 1];
    for k in [8u32, 15, 16, 31, 32, 52, 53, 62] {
        for d in [-1i64, 0, 1] {
            v.push((1i64 << k) + d);
            v.push(-((1i64 << k) + d));
        }
    }
    v
}

pub fn rand_factor(r: &mut Rng, lat: &[i64]) -> i64 {
    match r.below(11) {
        10 => {
            // a factor that aliases a small one modulo 2^16 / 2^32 / 2^53
            let x = r.range_i64(-100, 100) + r.range_i64(1, 3) * *r.pick(&[1i64 << 16, 1 << 32, 1 << 53, 1 << 31]);
            if r.bool() {
                x
            } else {
                -x
            }
        }
        0..=2 => r.range_i64(-1000, 1000),
        3..=5 => {
            let k = r.below(64) as u32;
            let m = if k == 0 { 0 } else { r.below(1u64 << (k.min(63))) as i64 };
            if r.bool() {
                m
            } else {
                m.wrapping_neg()
            }
        }
        6..=7 => r.u64() as i64,
        _ => *r.pick(lat),
    }
}

/// Unit + Unit and Unit - Unit (81 ordered pairs each): the Unit operands of the statement
pub fn check_unit_pairs(rep: &mut Rep) {
    for a in UNITS {
        for b in UNITS {
            if !rep.tick() {
                continue;
            }
            rep.class("unit-pair");
            let (ca, cb) = (unit_ns(a), unit_ns(b));
            judge(rep, "unit+unit", guard(|| a + b), ca + cb, None, &|| format!("{:?} + {:?}", a, b));
            judge(rep, "unit-unit", guard(|| a - b), ca - cb, None, &|| format!("{:?} - {:?}", a, b));
        }
    }
}

pub fn run(cfg: &Cfg, rep: &mut Rep) {
    let lat = gen::dur_lattice();
    let flat = factor_lattice();
    if rep.shard == 0 && !cfg.fuzz {
        check_unit_pairs(rep);
    }
    let sh = rep.shard as usize;
    let n = NSHARDS as usize;
    // exhaustive lattice part
    for (i, &x) in lat.iter().enumerate() {
        if i % n != sh || cfg.fuzz {
            continue;
        }
        let a = mk(x);
        check_unary(rep, a);
        for &y in lat.iter() {
            check_pair(rep, a, mk(y));
        }
        for &q in flat.iter() {
            check_scalar(rep, a, q);
        }
    }
    // random part
    let mut r = Rng::new(cfg.seed, 0x0100 + sh as u64);
    let nrand = cfg.budget(6_000_000);
    for i in 0..nrand {
        let i = cfg.k(i, &mut r);
        // operands through the raw constructor in 1 of 4 cases, otherwise canonical parts of a random count
        let a = if i % 4 == 0 {
            let (c, ns) = gen::rand_raw_parts(&mut r);
            Duration::from_parts(c, ns)
        } else {
            mk(gen::rand_count(&mut r, &lat))
        };
        let b = if i % 4 == 1 {
            let (c, ns) = gen::rand_raw_parts(&mut r);
            Duration::from_parts(c, ns)
        } else if i % 7 == 0 {
            // aim at saturation / century-boundary results: b = target - a
            let t = *r.pick(&lat);
            mk(t - count_d(a) + r.range_i64(-2, 2) as i128)
        } else {
            mk(gen::rand_count(&mut r, &lat))
        };
        check_pair(rep, a, b);
        if i % 8 == 0 {
            check_unary(rep, a);
        }
        let q = rand_factor(&mut r, &flat);
        check_scalar(rep, a, q);
        if i % 5 == 0 {
            // aim the product at the bounds: q near MAX/|a|
            let ca = count_d(a);
            if ca != 0 {
                let qq = (MAX_NS / ca.abs()).min(i64::MAX as i128) as i64;
                let qq = qq.saturating_add(r.range_i64(-1, 1));
                check_scalar(rep, a, if r.bool() { qq } else { qq.wrapping_neg() });
            }
        }
    }
    let _ = Unit::Second;
}
