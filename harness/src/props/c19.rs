//! C19 strftime-style formatting prints the right field per token; consts match docs.
use crate::core::*;
use crate::gen;
use crate::model::cal;
use crate::model::dur::*;
use crate::model::scale::*;
use crate::model::text::*;
use crate::props::c05::ep;
use hifitime::efmt::consts;
use hifitime::efmt::{Format, Formatter};
use hifitime::{Epoch, TimeScale};
use std::str::FromStr;

pub fn meta() -> Meta {
    Meta {
        rule: "events = (a) one (format, epoch) rendering: Format::from_str(fmt) then Formatter::new / with_timezone(offset) / to_time_scale + Display, compared with the harness renderer (M-TEXT over M-CAL fields of the epoch in its own scale: zero-padded %Y %m %d %H %M %S, nine-digit %f, three-digit %j, English %A %a %B %b, %T, %z as +-hh:mm, tokens joined by exactly the format's separators); (b) for UTC epochs and formats without optional tokens holding the full date and time: Format::parse(render) and Epoch::from_format_str(render, fmt) == the epoch; (c) the nine predefined constants: == Format::from_str(documented string) and identical rendering (optional tokens omitted when zero / UTC), ISO8601 formatter == Display, to_isoformat. Generation: formats of 1..16 tokens from the 14 stated tokens with 0..2 separators from `- / : . , T space _` after each token but the last, the nine constants, offsets -23:59..+23:59; epochs from C09's generator incl. last ns of a day and 37 s before UTC midnight. %y %w %J are exercised for no-panic only. Non-trivial = format with >= 8 tokens, zero-separator junction, weekday/day-of-year token, non-zero offset, epoch in the last 40 s of a day, non-UTC scale; distinct = distinct (format, reading, scale, offset) hashes among those.",
        assumptions: &["documented format strings of the constants as in the rustdoc / unit test of efmt::format", "M-CAL / M-TEXT"],
        mandatory: &["fmt/many-tokens", "fmt/zero-separator", "fmt/two-separators", "fmt/weekday-token", "fmt/doy-token", "fmt/offset-token", "fmt/no-gregorian-field", "epoch/last-40s-of-day", "epoch/last-ns-of-day", "tz/non-zero", "const/all", "parse-back/ok", "render/to_time_scale"],
        thorough_scale: 40,
        exhaustive_part: "the nine predefined constants x lattice epochs; every single-token format x lattice epochs",
    }
}

pub const TOK14: [&str; 14] = ["%Y", "%m", "%d", "%H", "%M", "%S", "%f", "%j", "%A", "%a", "%B", "%b", "%T", "%z"];
const SEPCH: [char; 8] = ['-', '/', ':', '.', ',', 'T', ' ', '_'];

#[derive(Clone, Debug)]
pub struct Fmt {
    pub items: Vec<(&'static str, String, bool)>, // token, separators after it, optional
}
impl Fmt {
    pub fn text(&self) -> String {
        let mut s = String::new();
        for (t, sep, opt) in &self.items {
            s.push_str(t);
            // documented strings put the '?' right after the token
            if *opt {
                s.push('?');
            }
            s.push_str(sep);
        }
        s
    }
    pub fn has(&self, t: &str) -> bool {
        self.items.iter().any(|x| x.0 == t)
    }
    pub fn parse_doc(doc: &str) -> Fmt {
        // documented constant strings: tokens %X, optional '?', then separators
        let mut items = vec![];
        for part in doc.split('%').skip(1) {
            let mut ch = part.chars();
            let t = ch.next().unwrap();
            let rest: String = ch.collect();
            let opt = rest.starts_with('?');
            let sep = rest.trim_start_matches('?').to_string();
            let tok = TOK14.iter().find(|x| x.ends_with(t)).unwrap();
            items.push((*tok, sep, opt));
        }
        Fmt { items }
    }
}

/// harness renderer
pub fn render(fmt: &Fmt, c: i128, s: TimeScale, off_ns: i128) -> String {
    let f = fields_of(c + off_ns, s);
    let days = (c + off_ns + greg_zero_ns(s)).div_euclid(NS_D) as i64;
    let wd = cal::WEEKDAYS[cal::weekday_1900(days) as usize];
    let mo = cal::MONTHS[(f.m - 1) as usize];
    let mut out = String::new();
    let mut pending = String::new();
    for (i, (t, sep, opt)) in fmt.items.iter().enumerate() {
        let field: Option<String> = match *t {
            "%Y" => Some(year4(f.y)),
            "%m" => Some(format!("{:02}", f.m)),
            "%d" => Some(format!("{:02}", f.d)),
            "%H" => Some(format!("{:02}", f.h)),
            "%M" => Some(format!("{:02}", f.mi)),
            "%S" => Some(format!("{:02}", f.s)),
            "%f" => {
                if *opt && f.ns == 0 {
                    None
                } else {
                    Some(format!("{:09}", f.ns))
                }
            }
            "%j" => Some(format!("{:03}", cal::day_of_year(f.y, f.m, f.d))),
            "%A" => Some(wd.to_string()),
            "%a" => Some(wd[..3].to_string()),
            "%B" => Some(mo.to_string()),
            "%b" => Some(mo[..3].to_string()),
            "%T" => {
                if *opt && s == TimeScale::UTC {
                    None
                } else {
                    Some(scale_name(s).to_string())
                }
            }
            "%z" => {
                let a = off_ns.abs();
                Some(format!("{}{:02}:{:02}", if off_ns < 0 { '-' } else { '+' }, a / NS_H, a % NS_H / NS_MIN))
            }
            _ => unreachable!(),
        };
        if let Some(fv) = field {
            if i > 0 {
                out.push_str(&pending);
            }
            out.push_str(&fv);
        }
        pending = sep.clone();
    }
    out
}

/// offset held by a formatter before `set_timezone` replaces it (see check_render)
const OTHER_OFF_NS: i128 = 90 * NS_MIN;
thread_local! {
    static SET_TZ: std::cell::RefCell<Option<(String, String)>> = const { std::cell::RefCell::new(None) };
}

pub fn check_render(rep: &mut Rep, fmt: &Fmt, c: i128, s: TimeScale, off_min: i32, parse_back: bool) {
    if !rep.tick() {
        return;
    }
    let off_ns = off_min as i128 * NS_MIN;
    let ftxt = fmt.text();
    let want = render(fmt, c, s, off_ns);
    let mut nt = false;
    if fmt.items.len() >= 8 {
        rep.class("fmt/many-tokens");
        nt = true;
    }
    let n = fmt.items.len();
    if fmt.items[..n - 1].iter().any(|x| x.1.is_empty()) {
        rep.class("fmt/zero-separator");
        nt = true;
    }
    if fmt.items.iter().any(|x| x.1.chars().count() == 2) {
        rep.class("fmt/two-separators");
    }
    if fmt.has("%A") || fmt.has("%a") {
        rep.class("fmt/weekday-token");
        nt = true;
    }
    if fmt.has("%j") {
        rep.class("fmt/doy-token");
        nt = true;
    }
    if fmt.has("%z") {
        rep.class("fmt/offset-token");
    }
    if !["%Y", "%m", "%d", "%H", "%M", "%S", "%f", "%B", "%b", "%z"].iter().any(|t| fmt.has(t)) {
        rep.class("fmt/no-gregorian-field");
        nt = true;
    }
    let tod = (c + off_ns + greg_zero_ns(s)).rem_euclid(NS_D);
    if tod >= NS_D - 40 * NS_S {
        rep.class("epoch/last-40s-of-day");
        nt = true;
        if tod == NS_D - 1 {
            rep.class("epoch/last-ns-of-day");
        }
    }
    if off_min != 0 {
        rep.class("tz/non-zero");
        nt = true;
    }
    if s != TimeScale::UTC {
        nt = true;
    }
    if nt {
        rep.nt(hstr(&ftxt) ^ h64(&[c as u64, (c >> 64) as u64, scale_idx(s), off_min as u64]));
    }
    rep.sample("render", || format!("format {:?} on Epoch({}, {:?}) offset {} min => {:?}", ftxt, c, s, off_min, want));
    let e = ep(c, s);
    let det = || format!("format {:?} on Epoch({}, {:?}) offset {} min", ftxt, c, s, off_min);
    let got = guard(|| {
        let f = Format::from_str(&ftxt).map_err(|x| format!("{:?}", x))?;
        let fm = if off_min == 0 { Formatter::new(e, f) } else { Formatter::with_timezone(e, mk(off_ns), f) };
        use std::fmt::Write;
        let mut o = String::new();
        write!(o, "{}", fm).map_err(|_| "fmt::Error".to_string())?;
        // a formatter is a value: printing it twice gives the same text
        let mut again = String::new();
        write!(again, "{}", fm).map_err(|_| "fmt::Error".to_string())?;
        if again != o {
            return Err(format!("second print {:?} differs from the first {:?}", again, o));
        }
        // set_timezone: %z prints the offset last given, whatever the formatter held before
        let mut a = Formatter::new(e, f);
        a.set_timezone(mk(off_ns));
        let mut b = Formatter::with_timezone(e, mk(OTHER_OFF_NS), f);
        b.set_timezone(mk(off_ns));
        b.set_timezone(mk(off_ns));
        let (mut oa, mut ob) = (String::new(), String::new());
        write!(oa, "{}", a).map_err(|_| "fmt::Error".to_string())?;
        write!(ob, "{}", b).map_err(|_| "fmt::Error".to_string())?;
        SET_TZ.with(|x| *x.borrow_mut() = Some((oa, ob)));
        Ok::<_, String>((f, o))
    });
    match got {
        Err(p) => rep.fail(&format!("render/panic/{}", p.class()), None, || format!("{} panicked: {} at {}", det(), p.msg, p.loc)),
        Ok(Err(x)) => rep.fail("render/err", None, || format!("{} failed: {}", det(), x)),
        Ok(Ok((f, out))) => {
            if out != want {
                rep.fail("render/value", None, || format!("{} printed {:?}, want {:?}", det(), out, want));
                return;
            }
            // set_timezone replaces the offset that %z prints. Whether it also moves the printed fields is not said
            // anywhere (the code leaves them where the constructor put them), so both readings are accepted for the
            // fields; the %z text must be that of the offset last set in either case.
            if let Some((oa, ob)) = SET_TZ.with(|x| x.borrow_mut().take()) {
                let wa = [render(fmt, c - off_ns, s, off_ns), want.clone()];
                let wb = [render(fmt, c + OTHER_OFF_NS - off_ns, s, off_ns), want.clone()];
                if !wa.contains(&oa) {
                    rep.fail("set_timezone/value", None, || format!("{}: Formatter::new + set_timezone printed {:?}, want {:?} or {:?}", det(), oa, wa[0], wa[1]));
                }
                if !wb.contains(&ob) {
                    rep.fail("set_timezone/value", None, || format!("{}: with_timezone(+01:30) + set_timezone printed {:?}, want {:?} or {:?}", det(), ob, wb[0], wb[1]));
                }
            }
            // parse back: UTC epochs, full date and time, no optional tokens
            let full = fmt.has("%Y") && fmt.has("%H") && fmt.has("%M") && fmt.has("%S") && (((fmt.has("%m") || fmt.has("%B") || fmt.has("%b")) && fmt.has("%d")) || fmt.has("%j"));
            let ns_ok = fmt.has("%f") || (c + off_ns).rem_euclid(NS_S) == 0;
            let tz_ok = off_min == 0 || fmt.has("%z");
            if parse_back && s == TimeScale::UTC && full && ns_ok && tz_ok && fmt.items.iter().all(|x| !x.2) {
                let zero_sep = fmt.items[..n - 1].iter().any(|x| x.1.is_empty());
                let z_after_sep = (1..n).any(|i| fmt.items[i].0 == "%z" && !fmt.items[i - 1].1.is_empty());
                let shape = unsupported_shape(fmt);
                match guard(|| (f.parse(&out), Epoch::from_format_str(&out, &ftxt), Epoch::from_str_with_format(&out, f))) {
                    Err(p) => rep.fail(&format!("parse-back/panic/{}", p.class()), None, || format!("{}: parsing its own output {:?} panicked: {} at {}", det(), out, p.msg, p.loc)),
                    Ok((a, b, c3)) => {
                        if std::env::var("VERIF_F24_STATS").is_ok() {
                            let okk = |r: &Result<Epoch, hifitime::HifitimeError>| matches!(r, Ok(g) if g.time_scale == TimeScale::UTC && count_d(g.duration) == c);
                            let all = okk(&a) && okk(&b) && okk(&c3);
                            let sh = all_shapes(fmt);
                            if sh.len() <= 1 {
                                rep.class(&format!("f24stats/{}/{}", if sh.is_empty() { "none".to_string() } else { sh.join("+") }, if all { "ok" } else { "fail" }));
                            }
                        }
                        for (name, r) in [("Format::parse", a), ("from_format_str", b), ("from_str_with_format", c3)] {
                            match r {
                                Ok(g) => {
                                    if g.time_scale != TimeScale::UTC || count_d(g.duration) != c {
                                        let fid = if shape.is_some() { Some("F24-parse-unsupported-format-shape") } else { None };
                                        let _ = (zero_sep, z_after_sep);
                                        rep.fail(&format!("parse-back/value/{name}"), fid, || format!("{}: {name}({:?}) = ({}, {:?}) [off by {} ns]", det(), out, count_d(g.duration), g.time_scale, count_d(g.duration) - c));
                                    } else {
                                        rep.class("parse-back/ok");
                                    }
                                }
                                Err(er) => {
                                    let fid = if shape.is_some() { Some("F24-parse-unsupported-format-shape") } else { None };
                                    rep.fail(&format!("parse-back/err/{name}"), fid, || format!("{}: {name}({:?}) = Err({:?})", det(), out, er));
                                }
                            }
                        }
                    }
                }
            }
        }
    }
}

/// Known finding F24: shapes of formats which Format::parse cannot read back (see known_findings.json).
/// Returns the name of the first matching shape.
pub fn unsupported_shape(fmt: &Fmt) -> Option<&'static str> {
    let n = fmt.items.len();
    for i in 0..n {
        let (t, sep, _) = &fmt.items[i];
        let last = i + 1 == n;
        if !last && sep.is_empty() {
            // (a numeric field directly followed by the time scale reads back: the scale name starts with a letter)
            let numeric = !matches!(*t, "%A" | "%a" | "%B" | "%b" | "%T" | "%z");
            if !(numeric && fmt.items[i + 1].0 == "%T") {
                return Some("zero-separator-junction");
            }
        }
        if *t == "%z" && i > 0 && !fmt.items[i - 1].1.is_empty() {
            return Some("offset-preceded-by-separator");
        }
        if *t == "%T" && !last {
            return Some("time-scale-not-last");
        }
        if *t == "%z" && !last {
            return Some("offset-not-last");
        }
        if matches!(*t, "%A" | "%a") && sep.starts_with('T') {
            return Some("weekday-name-followed-by-T-separator");
        }
        let is_name = |x: &str| matches!(x, "%A" | "%a" | "%B" | "%b");
        // (round 6: the two name shapes were narrowed to the sub-classes that actually fail on the pinned tree - measured
        // over 3 * 10^5 single-shape formats with VERIF_F24_STATS - because a regression inside a listed shape is masked:
        // weekday names read back when they are the last token; a name after two separators reads back when the second
        // separator is a blank or equals the name's own separator)
        if matches!(*t, "%B" | "%b") && last {
            return Some("name-token-last");
        }
        if is_name(t) && i > 0 && fmt.items[i - 1].1.chars().count() == 2 {
            let second = fmt.items[i - 1].1.chars().nth(1).unwrap();
            let own = sep.chars().next();
            if second != ' ' && own != Some(second) {
                return Some("name-preceded-by-two-separators");
            }
        }
    }
    None
}

/// every shape a format matches (development aid for refining the F24 predicate: VERIF_F24_STATS)
pub fn all_shapes(fmt: &Fmt) -> Vec<String> {
    let n = fmt.items.len();
    let mut v: Vec<String> = vec![];
    let is_name = |x: &str| matches!(x, "%A" | "%a" | "%B" | "%b");
    for i in 0..n {
        let (t, sep, _) = &fmt.items[i];
        let last = i + 1 == n;
        if !last && sep.is_empty() {
            let nx = fmt.items[i + 1].0;
            v.push(format!("zero-sep[{}{}]", if is_name(t) { "name" } else if *t == "%T" { "T" } else if *t == "%z" { "z" } else { "num" }, if is_name(nx) { "name" } else if nx == "%T" { "T" } else if nx == "%z" { "z" } else { "num" }));
        }
        if *t == "%z" && i > 0 && !fmt.items[i - 1].1.is_empty() {
            v.push("z-after-sep".into());
        }
        if *t == "%T" && !last {
            v.push("T-not-last".into());
        }
        if *t == "%z" && !last {
            v.push("z-not-last".into());
        }
        if matches!(*t, "%A" | "%a") && sep.starts_with('T') {
            v.push("weekday-then-T".into());
        }
        if is_name(t) && last {
            let pv = if i > 0 { fmt.items[i - 1].1.clone() } else { "^".to_string() };
            v.push(format!("name-last[{t},prev-sep-len={},prev-blank-last={}]", pv.chars().count(), pv.ends_with(' ')));
        }
        if is_name(t) && i > 0 && fmt.items[i - 1].1.chars().count() == 2 {
            let pv: Vec<char> = fmt.items[i - 1].1.chars().collect();
            let own = sep.chars().next().unwrap_or('$');
            v.push(format!("name-after-two[second-blank={},own==second={}]", pv[1] == ' ', own == pv[1]));
        }
    }
    v.sort();
    v.dedup();
    v
}

pub fn check_to_time_scale(rep: &mut Rep, fmt: &Fmt, c: i128, s: TimeScale, s2: TimeScale) {
    if !rep.tick() {
        return;
    }
    rep.class("render/to_time_scale");
    let c2 = c + zero_tai_ns(s) - zero_tai_ns(s2);
    let want = render(fmt, c2, s2, 0);
    let ftxt = fmt.text();
    let e = ep(c, s);
    match guard(|| Format::from_str(&ftxt).map(|f| format!("{}", Formatter::to_time_scale(e, f, s2)))) {
        Err(p) => rep.fail(&format!("to_time_scale/panic/{}", p.class()), None, || format!("Formatter::to_time_scale({:?}) panicked {}", ftxt, p.msg)),
        Ok(Err(x)) => rep.fail("to_time_scale/err", None, || format!("{:?}: {:?}", ftxt, x)),
        Ok(Ok(out)) => {
            if out != want {
                rep.fail("to_time_scale/value", None, || format!("Formatter::to_time_scale(Epoch({},{:?}), {:?}, {:?}) printed {:?}, want {:?}", c, s, ftxt, s2, out, want));
            }
        }
    }
}

const DOCS: [(&str, &str); 9] = [
    ("ISO8601", "%Y-%m-%dT%H:%M:%S.%f %T"),
    ("ISO8601_FLEX", "%Y-%m-%dT%H:%M:%S.%f? %T?"),
    ("RFC3339", "%Y-%m-%dT%H:%M:%S.%f%z"),
    ("RFC3339_FLEX", "%Y-%m-%dT%H:%M:%S.%f?%z"),
    ("ISO8601_DATE", "%Y-%m-%d"),
    ("ISO8601_ORDINAL", "%Y-%j"),
    ("RFC2822", "%a, %d %b %Y %H:%M:%S"),
    ("RFC2822_LONG", "%A, %d %B %Y %H:%M:%S"),
    ("ISO8601_STD", "%Y-%m-%dT%H:%M:%S.%f"),
];
fn konst(name: &str) -> Format {
    match name {
        "ISO8601" => consts::ISO8601,
        "ISO8601_FLEX" => consts::ISO8601_FLEX,
        "RFC3339" => consts::RFC3339,
        "RFC3339_FLEX" => consts::RFC3339_FLEX,
        "ISO8601_DATE" => consts::ISO8601_DATE,
        "ISO8601_ORDINAL" => consts::ISO8601_ORDINAL,
        "RFC2822" => consts::RFC2822,
        "RFC2822_LONG" => consts::RFC2822_LONG,
        _ => consts::ISO8601_STD,
    }
}

pub fn check_consts(rep: &mut Rep, c: i128, s: TimeScale, off_min: i32) {
    for (name, doc) in DOCS {
        if !rep.tick() {
            continue;
        }
        rep.class("const/all");
        rep.nt(hstr(name) ^ h64(&[c as u64, (c >> 64) as u64, scale_idx(s), off_min as u64]));
        let fmt = Fmt::parse_doc(doc);
        let off_ns = off_min as i128 * NS_MIN;
        let want = render(&fmt, c, s, off_ns);
        let e = ep(c, s);
        rep.sample("const", || format!("{name} = {:?} on Epoch({}, {:?}) => {:?}", doc, c, s, want));
        match guard(|| {
            let k = konst(name);
            let parsed = Format::from_str(doc);
            let eq = parsed.as_ref().map(|p| *p == k).unwrap_or(false);
            let out = if off_min == 0 { format!("{}", Formatter::new(e, k)) } else { format!("{}", Formatter::with_timezone(e, mk(off_ns), k)) };
            let out2 = parsed.map(|p| if off_min == 0 { format!("{}", Formatter::new(e, p)) } else { format!("{}", Formatter::with_timezone(e, mk(off_ns), p)) });
            (eq, out, out2, format!("{}", e), e.to_isoformat())
        }) {
            Err(p) => rep.fail(&format!("const/panic/{}", p.class()), None, || format!("{name} on Epoch({},{:?}) panicked: {} at {}", c, s, p.msg, p.loc)),
            Ok((eq, out, out2, disp, isofmt)) => {
                // ISO8601_STD documents no format string ("the ISO8601 format without the time scale"): the
                // separator kept after its last token is never printed, so both spellings are accepted.
                let eq = eq || (name == "ISO8601_STD" && Format::from_str("%Y-%m-%dT%H:%M:%S.%f ").map(|p| p == konst(name)).unwrap_or(false));
                if !eq {
                    rep.fail(&format!("const/not-equal-to-documented-string/{name}"), None, || format!("consts::{name} != Format::from_str({:?})", doc));
                }
                if out2.as_ref().ok() != Some(&out) {
                    rep.fail(&format!("const/renders-differently/{name}"), None, || format!("consts::{name} printed {:?} but Format::from_str({:?}) printed {:?}", out, doc, out2));
                }
                if out != want {
                    rep.fail(&format!("const/render-value/{name}"), None, || format!("consts::{name} on Epoch({},{:?}) offset {} printed {:?}, want {:?}", c, s, off_min, out, want));
                }
                if name == "ISO8601" && off_min == 0 && out != disp {
                    // known finding F20: zero sub-seconds are printed by the formatter and omitted by Display
                    let f = fields_of(c, s);
                    let fid = if f.ns == 0 && out == format!("{}.000000000 {}", iso_display(&f), scale_name(s)) && disp == format!("{} {}", iso_display(&f), scale_name(s)) { Some("F20-iso8601-formatter-zero-subseconds") } else { None };
                    rep.fail("const/iso8601-differs-from-display", fid, || format!("Formatter(ISO8601) printed {:?}, Display printed {:?}", out, disp));
                }
                if name == "ISO8601_STD" && off_min == 0 {
                    let f = fields_of(c, s);
                    if f.y >= 0 && f.y <= 9999 {
                        let w = format!("{}.{:06}", iso_frac(&f, 0, 'T'), f.ns / 1000);
                        if isofmt != w {
                            rep.fail("to_isoformat/value", None, || format!("Epoch({},{:?}).to_isoformat() = {:?} want {:?}", c, s, isofmt, w));
                        }
                    }
                }
            }
        }
    }
}

pub fn rand_fmt_pub(r: &mut Rng, full_datetime: bool) -> Fmt {
    rand_fmt(r, full_datetime)
}

fn rand_fmt(r: &mut Rng, full_datetime: bool) -> Fmt {
    let mut toks: Vec<&'static str> = vec![];
    if full_datetime {
        toks.extend(["%Y", "%H", "%M", "%S"]);
        match r.below(3) {
            0 => toks.extend([*r.pick(&["%m", "%B", "%b"]), "%d"]),
            1 => toks.push("%j"),
            _ => toks.extend(["%m", "%d"]),
        }
        if r.chance(3, 4) {
            toks.push("%f");
        }
        for _ in 0..r.below(5) {
            toks.push(*r.pick(&TOK14));
        }
        // shuffle
        for i in (1..toks.len()).rev() {
            let j = r.below(i as u64 + 1) as usize;
            toks.swap(i, j);
        }
        toks.truncate(16);
    } else {
        let n = 1 + r.below(16) as usize;
        for _ in 0..n {
            toks.push(*r.pick(&TOK14));
        }
    }
    let n = toks.len();
    let mut items = vec![];
    let sep_bias = r.below(4);
    for (i, t) in toks.into_iter().enumerate() {
        let mut sep = String::new();
        if i + 1 < n {
            let k = match sep_bias {
                0 => r.below(3),
                1 => 1,
                2 => 1 + r.below(2),
                _ => if r.chance(1, 8) { 0 } else { 1 + r.below(2) },
            };
            for _ in 0..k {
                sep.push(*r.pick(&SEPCH));
            }
        }
        items.push((t, sep, false));
    }
    Fmt { items }
}

pub fn run(cfg: &Cfg, rep: &mut Rep) {
    let sh = rep.shard as usize;
    let n = NSHARDS as usize;
    let w = World::new(crate::model::dynm::NAIF);
    let lats: Vec<Vec<i128>> = SCALES.iter().map(|s| gen::reading_lattice(*s, &w.leap)).collect();
    let mut r = Rng::new(cfg.seed, 0x1900 + sh as u64);
    let mut i = 0usize;
    for (si, s) in SCALES.iter().enumerate() {
        if cfg.fuzz {
            break;
        }
        for &c in &lats[si] {
            i += 1;
            if i % n != sh {
                continue;
            }
            check_consts(rep, c, *s, 0);
            for t in TOK14 {
                check_render(rep, &Fmt { items: vec![(t, String::new(), false)] }, c, *s, 0, false);
            }
        }
    }
    // %y %w %J: no-panic only
    for t in ["%y", "%w", "%J", "%y-%w %J"] {
        i += 1;
        if i % n == sh && rep.tick() {
            let e = ep(lats[4][lats[4].len() / 2], TimeScale::UTC);
            if let Err(p) = guard(|| Format::from_str(t).map(|f| format!("{}", Formatter::new(e, f)))) {
                rep.fail(&format!("render-other-tokens/panic/{}", p.class()), None, || format!("format {:?} panicked: {}", t, p.msg));
            }
        }
    }
    let nrand = cfg.budget(300_000);
    for k in 0..nrand {
        let k = cfg.k(k, &mut r);
        let si = if k % 2 == 0 { 4 } else { r.below(9) as usize };
        let s = SCALES[si];
        let full = s == TimeScale::UTC && r.chance(2, 3);
        let fmt = rand_fmt(&mut r, full);
        let off_min = if r.chance(1, 3) { r.range_i64(-1439, 1439) as i32 } else { 0 };
        for j in 0..8 {
            let c = match j {
                0 => {
                    // last 40 s of a day (in own scale)
                    let base = gen::rand_reading(&mut r, s, &lats[si]);
                    let g = base + greg_zero_ns(s);
                    (g - g.rem_euclid(NS_D) + NS_D - 1 - r.below(40 * NS_S as u64) as i128 * if r.bool() { 1 } else { 0 }) - greg_zero_ns(s)
                }
                1 => {
                    let base = gen::rand_reading(&mut r, s, &lats[si]);
                    base - base.rem_euclid(NS_S)
                }
                _ => gen::rand_reading(&mut r, s, &lats[si]),
            };
            let (lo, hi) = gen::reading_range(s, 1, 9999);
            if c + off_min as i128 * NS_MIN < lo || c + off_min as i128 * NS_MIN > hi || c < lo || c > hi {
                continue;
            }
            check_render(rep, &fmt, c, s, off_min, true);
            if j == 2 {
                check_consts(rep, c, s, if k % 4 == 0 { off_min } else { 0 });
            }
            if j == 3 && is_uniform(s) {
                let s2 = *r.pick(&UNIFORM);
                let c2 = c + zero_tai_ns(s) - zero_tai_ns(s2);
                let (lo2, hi2) = gen::reading_range(s2, 1, 9999);
                if c2 >= lo2 && c2 <= hi2 {
                    check_to_time_scale(rep, &fmt, c, s, s2);
                }
            }
        }
    }
}
