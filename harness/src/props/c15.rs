//! C15 TimeSeries yields exactly start + k*step, in order, up to the end bound.
use crate::core::*;
use crate::gen;
use crate::model::dur::*;
use crate::model::scale::*;
use crate::props::c05::ep;
use hifitime::{Epoch, TimeScale, TimeSeries};

pub fn meta() -> Meta {
    Meta {
        rule: "events = one whole iteration of TimeSeries::inclusive / exclusive(start, end, step): repeated next() until None plus one extra next(), and the same series through a for loop / collect. Expected: item k == start + k*step exactly (parts, scale of start), strictly increasing, count == #{k >= 0 : k*step < span} (exclusive) or <= span (inclusive) with span = reading of end's instant in start's scale - start (M-SCALE), None stays None. Series with an ET/TDB operand in a different scale are only generated with spans more than 100 ns away from a multiple of the step; spans whose end has no UTC pre-image are skipped. Generation: start in all nine scales (incl. before the reference epoch), end in the same or another scale, span = n*step + r with r in {0, 1 ns, step-1, random}, steps 1 ns..days, n <= 2000 (quick) plus a few series of 2-5 million items (thorough), series across leap seconds and century boundaries. Non-trivial = end in a different scale, r in {0, 1 ns, step-1}, crossing a leap second or century boundary, start before the reference, n >= 1000; distinct = distinct series hashes among those. Round 6: about forty consumers of the Iterator trait (count last max min fold for_each extend find position zip chain peekable fuse by_ref().take clone eq partition reduce try_for_each ...) from six positions (fresh, after 1, n/2, n-1, n, n+2 items) on series of up to 80 items. Round 10: nth / skip / step_by with 2^31+1, 2^32, 2^63, usize::MAX; 1 620 series of q x 2^p + r items (p = 31..70) judged on their first 40 items, nth and take; thorough tier: one series walked past 2^31 items.",
        assumptions: &["M-SCALE / M-LEAP / M-DYN for the span"],
        mandatory: &["series/exclusive", "series/inclusive", "series/cross-scale", "series/exact-multiple", "series/one-ns-over", "series/step-minus-one", "series/crosses-leap-second", "series/crosses-century", "series/start-before-reference", "series/ns-step", "series/empty-span", "series/long-span"],
        thorough_scale: 30,
        exhaustive_part: "none (sampled); item-by-item comparison of every yielded element",
    }
}

#[allow(clippy::too_many_arguments)]
pub fn check(rep: &mut Rep, w: &World, sc: i128, ss: TimeScale, ec: i128, es: TimeScale, step: i128, incl: bool, tag: &[&str]) {
    if !rep.tick() {
        return;
    }
    // span = end - start: measured in the time scale of the left operand (end) after re-expressing start in it
    let t_end = w.to_tai(ec, es);
    let t_start = w.to_tai(sc, ss);
    let start_in_e = if es == ss { Some(sc) } else { w.from_tai(t_start, es) };
    let start_in_e = match start_in_e {
        Some(x) => x,
        None => return,
    };
    let span = ec - start_in_e;
    if step <= 0 {
        return;
    }
    if span < 0 {
        // an end before the start: no k satisfies k x step < (or <=) end - start, so the series is empty, whoever asks
        if dyn_of(es, ss) && span > -200 {
            return; // (ET / TDB bounds: the sign of a difference within the conversion tolerance is open)
        }
        rep.class("series/end-before-start");
        rep.nt(h64(&[55, sc as u64, ec as u64, step as u64, incl as u64, scale_idx(ss), scale_idx(es)]));
        let (start, end, stp) = (ep(sc, ss), ep(ec, es), mk(step));
        let mk_ts = move || if incl { TimeSeries::inclusive(start, end, stp) } else { TimeSeries::exclusive(start, end, stp) };
        match guard(|| (mk_ts().next().is_some(), consumers(&mk_ts, &[]))) {
            Err(p) => rep.fail(&format!("series/panic/{}", p.class()), None, || format!("series with end {} ns before start panicked: {} at {}", -span, p.msg, p.loc)),
            Ok((some, c)) => {
                if some {
                    rep.fail("series/count", None, || format!("TimeSeries::{}(({}, {:?}), ({}, {:?}), {} ns): the end is {} ns before the start, yet next() yields an item", if incl { "inclusive" } else { "exclusive" }, sc, ss, ec, es, step, -span));
                }
                if let Some(msg) = c {
                    rep.fail("series/consumer", None, || format!("TimeSeries::{}(({}, {:?}), ({}, {:?}), {} ns), end {} ns before start: {}", if incl { "inclusive" } else { "exclusive" }, sc, ss, ec, es, step, -span, msg));
                }
            }
        }
        return;
    }
    let dyn_mixed = es != ss && (is_dyn(es) || is_dyn(ss));
    let mut span = span;
    if dyn_mixed {
        if (ss == TimeScale::UTC || es == TimeScale::UTC) && (w.near_utc_discontinuity(t_end, 100) || w.near_utc_discontinuity(t_start, 100)) {
            return;
        }
        // the bound of the statement is `end - start`, which for an ET / TDB operand is only fixed to C07's tolerance: the
        // series is judged against the difference the library itself reports (C04 keeps that one within tolerance), so a
        // span within a few ns of a multiple of the step is decided exactly instead of being left open
        match guard(|| ep(ec, es) - ep(sc, ss)) {
            Ok(d) if (count_d(d) - span).abs() <= 100 => span = count_d(d),
            _ => {
                let r = span % step;
                if r <= 100 || step - r <= 100 {
                    return;
                }
            }
        }
        if span < 0 {
            return;
        }
    }
    let want_n: i128 = if incl { span / step + 1 } else { (span + step - 1) / step };
    if want_n > 6_000_000 {
        return;
    }
    rep.class(if incl { "series/inclusive" } else { "series/exclusive" });
    for t in tag {
        rep.class(t);
    }
    if es != ss {
        rep.class("series/cross-scale");
    }
    if sc < 0 {
        rep.class("series/start-before-reference");
    }
    if sc.div_euclid(NPC) != (sc + span).div_euclid(NPC) {
        rep.class("series/crosses-century");
    }
    if step == 1 {
        rep.class("series/ns-step");
    }
    if span == 0 {
        rep.class("series/empty-span");
    }
    if ss == TimeScale::UTC || es == TimeScale::UTC {
        let t0 = t_start;
        if w.leap.iter().any(|&(ts, _)| ts as i128 * NS_S > t0 - 60 * NS_S && (ts as i128) * NS_S < t_end + 60 * NS_S) {
            rep.class("series/crosses-leap-second");
        }
    }
    if !tag.is_empty() || es != ss || sc < 0 || want_n >= 1000 {
        rep.nt(h64(&[sc as u64, (sc >> 64) as u64, scale_idx(ss), ec as u64, (ec >> 64) as u64, scale_idx(es), step as u64, incl as u64]));
    }
    rep.sample("series", || format!("{}(start=({}, {:?}), end=({}, {:?}), step={} ns) => {} items", if incl { "inclusive" } else { "exclusive" }, sc, ss, ec, es, step, want_n));
    let (start, end, stp) = (ep(sc, ss), ep(ec, es), mk(step));
    let det = || format!("TimeSeries::{}(({}, {:?}), ({}, {:?}), {} ns)", if incl { "inclusive" } else { "exclusive" }, sc, ss, ec, es, step);
    let cap = want_n as usize + 5;
    let r = guard(|| {
        let mut ts = if incl { TimeSeries::inclusive(start, end, stp) } else { TimeSeries::exclusive(start, end, stp) };
        let mut first_bad: Option<(usize, (i16, u64), TimeScale)> = None;
        let mut n = 0usize;
        while let Some(e) = ts.next() {
            let wantc = sc + n as i128 * step;
            if first_bad.is_none() && (count_d(e.duration) != wantc || e.time_scale != ss || !is_canonical(e.duration.to_parts())) {
                first_bad = Some((n, e.duration.to_parts(), e.time_scale));
            }
            n += 1;
            if n > cap {
                break;
            }
        }
        let after = ts.next().is_some() || ts.next().is_some();
        // the same series through a for loop and collect
        let ts2 = if incl { TimeSeries::inclusive(start, end, stp) } else { TimeSeries::exclusive(start, end, stp) };
        let mut n2 = 0usize;
        for _e in ts2 {
            n2 += 1;
            if n2 > cap {
                break;
            }
        }
        let n3 = if want_n < 5000 && n as i128 == want_n {
            let ts3 = if incl { TimeSeries::inclusive(start, end, stp) } else { TimeSeries::exclusive(start, end, stp) };
            ts3.collect::<Vec<_>>().len()
        } else {
            n2
        };
        // the iterator's own adaptors (`for` loops over `.skip()` / `.step_by()`, `.nth()`, `.count()`, `.last()`) are
        // iteration too: they must see exactly the items the plain next() loop sees
        let mut adapt: Option<String> = None;
        if want_n < 3000 && n as i128 == want_n && first_bad.is_none() {
            let mk_ts = || if incl { TimeSeries::inclusive(start, end, stp) } else { TimeSeries::exclusive(start, end, stp) };
            let cnt = mk_ts().count();
            let last = mk_ts().last().map(|e| count_d(e.duration));
            let want_last = if n == 0 { None } else { Some(sc + (n as i128 - 1) * step) };
            if cnt != n {
                adapt = Some(format!("count() = {} but next() yields {}", cnt, n));
            } else if last != want_last {
                adapt = Some(format!("last() = {:?} want {:?}", last, want_last));
            }
            for k in [0usize, 1, 2, n / 2, n.saturating_sub(1), n, n + 1] {
                if adapt.is_some() {
                    break;
                }
                let sk: Vec<i128> = mk_ts().skip(k).map(|e| count_d(e.duration)).collect();
                let want_sk: Vec<i128> = (k..n).map(|j| sc + j as i128 * step).collect();
                if sk != want_sk {
                    adapt = Some(format!("skip({k}) yields {} items (first {:?}), want {} (first {:?})", sk.len(), sk.first(), want_sk.len(), want_sk.first()));
                    break;
                }
                let nth = mk_ts().nth(k).map(|e| count_d(e.duration));
                let want_nth = if k < n { Some(sc + k as i128 * step) } else { None };
                if nth != want_nth {
                    adapt = Some(format!("nth({k}) = {:?} want {:?}", nth, want_nth));
                    break;
                }
                if k >= 1 {
                    let sb: Vec<i128> = mk_ts().step_by(k).map(|e| count_d(e.duration)).collect();
                    let want_sb: Vec<i128> = (0..n).step_by(k).map(|j| sc + j as i128 * step).collect();
                    if sb != want_sb {
                        adapt = Some(format!("step_by({k}) yields {} items, want {}", sb.len(), want_sb.len()));
                        break;
                    }
                }
                // nth in the middle of an iteration, then on to the end
                let mut it = mk_ts();
                let _ = it.next();
                let _ = it.nth(k);
                let rest = it.count();
                let want_rest = n.saturating_sub(k + 2);
                if rest != want_rest {
                    adapt = Some(format!("next(); nth({k}); then count() = {} want {}", rest, want_rest));
                }
            }
        }
        // every consumer of the Iterator trait, from every position (fresh, after k items, after the end): a series that
        // overrides one of them (fold, count, last, max, nth ...) or keeps state beside its index shows here
        if adapt.is_none() && first_bad.is_none() && n as i128 == want_n && (n <= 12 || (n <= 80 && (sc ^ ec) & 7 == 0)) {
            let all: Vec<i128> = (0..n).map(|j| sc + j as i128 * step).collect();
            for k in [0usize, 1, n / 2, n.saturating_sub(1), n, n + 2] {
                let mk_pos = || {
                    let mut it = if incl { TimeSeries::inclusive(start, end, stp) } else { TimeSeries::exclusive(start, end, stp) };
                    for _ in 0..k {
                        let _ = it.next();
                    }
                    it
                };
                if let Some(msg) = consumers(&mk_pos, &all[k.min(n)..]) {
                    adapt = Some(format!("after {k} next() calls: {msg}"));
                    break;
                }
            }
        }
        (n, first_bad, after, n2, n3, adapt)
    });
    match r {
        Err(p) => rep.fail(&format!("series/panic/{}", p.class()), None, || format!("{} panicked: {} at {}", det(), p.msg, p.loc)),
        Ok((n, first_bad, after, n2, n3, adapt)) => {
            if let Some(a) = adapt {
                rep.class("series/adaptor-mismatch");
                rep.fail("series/adaptor", None, || format!("{}: {}", det(), a));
            }
            if let Some((k, parts, tsc)) = first_bad {
                rep.fail("series/item-value", None, || format!("{}: item {} = ({}, {:?}), want count {}", det(), k, fmt_parts(parts), tsc, sc + k as i128 * step));
            }
            if n as i128 != want_n {
                // F12b: span measured with the end re-expressed in UTC through the deformed map
                let mut fid = None;
                if es == TimeScale::UTC && ss != TimeScale::UTC && w.in_f12b_window(t_start) {
                    let span2 = ec - w.from_tai_f12b(t_start, TimeScale::UTC);
                    let n_dev: i128 = if span2 < 0 { 0 } else if incl { span2 / step + 1 } else { (span2 + step - 1) / step };
                    if n as i128 == n_dev.min(cap as i128 + 1) || (dyn_mixed && (n as i128 - n_dev).abs() <= 1) {
                        fid = Some("F12b-tai-to-utc-frame");
                    }
                }
                rep.fail("series/count", fid, || format!("{} yielded {} items, want {} (span {} ns)", det(), n, want_n, span));
            }
            if after && n <= cap {
                rep.fail("series/resumes-after-none", None, || format!("{}: next() after None returned an item", det()));
            }
            if n2 != n || n3 != n {
                rep.fail("series/for-collect-differ", None, || format!("{}: next() loop {} items, for loop {}, collect {}", det(), n, n2, n3));
            }
        }
    }
}

/// A series with more items than anybody can walk (span / step beyond 2^31, 2^32, 2^63, 2^64 ...): its first items are
/// still start + k x step, it does not end early, `nth` lands where `next` would; a series whose exact count is small but
/// whose span / step pair is large in every machine width is walked to its end.
pub fn check_prefix(rep: &mut Rep, sc: i128, ss: TimeScale, span: i128, step: i128, incl: bool) {
    if !rep.tick() || step <= 0 || span < 0 || !(MIN_NS..=MAX_NS).contains(&(sc + span)) {
        return;
    }
    let count: i128 = if incl { span / step + 1 } else { (span + step - 1) / step };
    let walk = count.min(40) as usize;
    rep.class("series/count-beyond-machine-widths");
    rep.nt(h64(&[77, sc as u64, span as u64, (span >> 64) as u64, step as u64, incl as u64, scale_idx(ss)]));
    let (start, end, stp) = (ep(sc, ss), ep(sc + span, ss), mk(step));
    let mk_ts = move || if incl { TimeSeries::inclusive(start, end, stp) } else { TimeSeries::exclusive(start, end, stp) };
    let det = || format!("TimeSeries::{}(({}, {:?}), + {} ns, step {} ns) [{} items]", if incl { "inclusive" } else { "exclusive" }, sc, ss, span, step, count);
    match guard(|| {
        let mut it = mk_ts();
        let head: Vec<Option<i128>> = (0..walk + 1).map(|_| it.next().map(|e| count_d(e.duration))).collect();
        let nths: Vec<Option<i128>> = [0usize, 1, 7, 39].iter().map(|&j| mk_ts().nth(j).map(|e| count_d(e.duration))).collect();
        let taken = mk_ts().take(25).count();
        (head, nths, taken)
    }) {
        Err(p) => rep.fail(&format!("series/panic/{}", p.class()), None, || format!("{} panicked: {} at {}", det(), p.msg, p.loc)),
        Ok((head, nths, taken)) => {
            for (k, g) in head.iter().enumerate() {
                let want = if (k as i128) < count { Some(sc + k as i128 * step) } else { None };
                if *g != want {
                    rep.fail("series/prefix", None, || format!("{}: item {k} = {:?}, want {:?}", det(), g, want));
                    break;
                }
            }
            for (g, &j) in nths.iter().zip([0usize, 1, 7, 39].iter()) {
                let want = if (j as i128) < count { Some(sc + j as i128 * step) } else { None };
                if *g != want {
                    rep.fail("series/prefix-nth", None, || format!("{}: nth({j}) = {:?}, want {:?}", det(), g, want));
                }
            }
            if taken as i128 != count.min(25) {
                rep.fail("series/prefix-take", None, || format!("{}: take(25).count() = {taken}", det()));
            }
        }
    }
}

fn dyn_of(a: TimeScale, b: TimeScale) -> bool {
    a != b && (is_dyn(a) || is_dyn(b))
}

/// Every way the Iterator trait hands out the remaining items of a positioned series must see exactly `want` (counts of
/// the items, in order). Returns a description of the first consumer that does not.
fn consumers(mk_it: &dyn Fn() -> TimeSeries, want: &[i128]) -> Option<String> {
    let c = |e: Epoch| count_d(e.duration);
    let n = want.len();
    macro_rules! expect {
        ($name:expr, $got:expr, $want:expr) => {{
            let (g, w) = ($got, $want);
            if g != w {
                return Some(format!("{} = {:?}, want {:?} ({} items left)", $name, g, w, n));
            }
        }};
    }
    expect!("count()", mk_it().count(), n);
    expect!("last()", mk_it().last().map(c), want.last().copied());
    expect!("max()", mk_it().max().map(c), want.last().copied());
    expect!("min()", mk_it().min().map(c), want.first().copied());
    expect!("max_by_key(duration)", mk_it().max_by_key(|e| count_d(e.duration)).map(c), want.last().copied());
    expect!("min_by(cmp)", mk_it().min_by(|a, b| a.cmp(b)).map(c), want.first().copied());
    expect!("fold", mk_it().fold(Vec::new(), |mut v, e| { v.push(c(e)); v }), want.to_vec());
    let mut v = vec![];
    mk_it().for_each(|e| v.push(c(e)));
    expect!("for_each", v, want.to_vec());
    let mut v: Vec<Epoch> = vec![];
    v.extend(mk_it());
    expect!("Vec::extend", v.into_iter().map(c).collect::<Vec<_>>(), want.to_vec());
    expect!("collect", mk_it().map(c).collect::<Vec<_>>(), want.to_vec());
    expect!("filter(true).count()", mk_it().filter(|_| true).count(), n);
    expect!("find(false)", mk_it().find(|_| false).map(c), None);
    expect!("any(false)", mk_it().any(|_| false), false);
    expect!("all(true)", mk_it().all(|_| true), true);
    if let Some(&l) = want.last() {
        expect!("position(last)", mk_it().position(|e| c(e) == l), Some(n - 1));
        expect!("find(last)", mk_it().find(|e| c(*e) == l).map(c), Some(l));
    }
    expect!("zip(0..)", mk_it().zip(0usize..).map(|(e, i)| (i, c(e))).collect::<Vec<_>>(), want.iter().copied().enumerate().collect::<Vec<_>>());
    expect!("chain(empty)", mk_it().chain(std::iter::empty()).map(c).collect::<Vec<_>>(), want.to_vec());
    expect!("enumerate().last()", mk_it().enumerate().last().map(|(i, e)| (i, c(e))), want.last().map(|&l| (n - 1, l)));
    let mut pk = mk_it().peekable();
    expect!("peekable().peek()", pk.peek().map(|e| c(*e)), want.first().copied());
    expect!("peekable() rest", pk.map(c).collect::<Vec<_>>(), want.to_vec());
    expect!("fuse()", mk_it().fuse().map(c).collect::<Vec<_>>(), want.to_vec());
    let mut it = mk_it();
    let head: Vec<i128> = it.by_ref().take(2).map(c).collect();
    expect!("by_ref().take(2)", head, want.iter().take(2).copied().collect::<Vec<_>>());
    expect!("count() after by_ref().take(2)", it.count(), n.saturating_sub(2));
    let it = mk_it();
    let cl = it.clone();
    expect!("clone of the positioned series", cl.map(c).collect::<Vec<_>>(), want.to_vec());
    expect!("the series after being cloned", it.map(c).collect::<Vec<_>>(), want.to_vec());
    expect!("Iterator::eq with itself", mk_it().eq(mk_it()), true);
    expect!("take_while(true)", mk_it().take_while(|_| true).count(), n);
    expect!("skip_while(false)", mk_it().skip_while(|_| false).count(), n);
    expect!("map_while(Some)", mk_it().map_while(Some).count(), n);
    expect!("partition", mk_it().partition::<Vec<Epoch>, _>(|_| true).0.len(), n);
    expect!("reduce(max)", mk_it().reduce(|a, b| if b > a { b } else { a }).map(c), want.last().copied());
    expect!("try_for_each", { let mut k = 0usize; let _ = mk_it().try_for_each(|_| { k += 1; Some(()) }); k }, n);
    // skip counts beyond every machine width a cursor might have (the series is short, so the default implementations end
    // at the first None): nothing is left, and nothing comes back
    for big in [usize::MAX, 1usize << 63, 1usize << 32, (1usize << 31) + 1] {
        expect!(format!("nth({big})"), mk_it().nth(big).map(c), None);
        expect!(format!("skip({big}).next()"), mk_it().skip(big).next().map(c), None);
        expect!(format!("step_by({big})"), mk_it().step_by(big).map(c).collect::<Vec<_>>(), want.iter().take(1).copied().collect::<Vec<_>>());
        let mut it = mk_it();
        let first = it.next().map(c);
        expect!(format!("next(); nth({big})"), (first, it.nth(big).map(c), it.next().map(c)), (want.first().copied(), None, None));
    }
    // after the end, the end stays the end for every consumer
    let mut it = mk_it();
    for _ in it.by_ref() {}
    expect!("count() after exhaustion", it.clone().count(), 0usize);
    expect!("max() after exhaustion", it.clone().max().map(c), None);
    expect!("last() after exhaustion", it.clone().last().map(c), None);
    expect!("fold after exhaustion", it.clone().fold(0usize, |a, _| a + 1), 0usize);
    expect!("next() after exhaustion", it.next().map(c), None);
    None
}

pub fn run(cfg: &Cfg, rep: &mut Rep) {
    let sh = rep.shard as usize;
    let w = World::new(crate::model::dynm::NAIF);
    let mut r = Rng::new(cfg.seed, 0x1500 + sh as u64);
    let lats: Vec<Vec<i128>> = SCALES.iter().map(|s| gen::reading_lattice(*s, &w.leap)).collect();
    let nrand = cfg.budget(250_000);
    for k in 0..nrand {
        let k = cfg.k(k, &mut r);
        let si = r.below(9) as usize;
        let ss = SCALES[si];
        let es = if r.chance(1, 2) { ss } else { gen::rand_scale(&mut r) };
        let step: i128 = match r.below(8) {
            0 => 1,
            1 => r.range_i64(1, 1000) as i128,
            2 => unit_ns(*r.pick(&UNITS[..7])) * r.range_i64(1, 30) as i128,
            3 => r.range_i64(1, 86_400_000_000_000) as i128,
            4 => NS_S,
            5 => *r.pick(&[7i128, 1_000_003, 999_999_937, 3 * NS_S + 1]),
            6 => NS_D,
            _ => r.range_i128(1, 10 * NS_D),
        };
        let mut step = step;
        let mut n = match r.below(6) {
            0 => r.below(4) as i128,
            1 => r.below(2000) as i128,
            2 => 1000 + r.below(1000) as i128,
            _ => r.below(300) as i128,
        };
        if cfg.fuzz {
            n = n.min(48); // short series per input; the long-span stratum below keeps its length
        }
        if k % 5 == 0 {
            // long spans: steps of days..years so that the series reaches centuries from its start
            // (offsets beyond 2^63 and 2^64 ns, spans that are whole centuries plus a multiple of the step)
            step = *r.pick(&[NS_D, 7 * NS_D, 30 * NS_D, 365 * NS_D, 36525 * NS_D / 4, NPC, NS_D + 1, 53 * NS_D]) * r.range_i64(1, 3) as i128;
            let target = *r.pick(&[NPC, 2 * NPC, 3 * NPC, (1i128 << 63) + NS_D, (1i128 << 64) + NS_D, 6 * NPC]);
            n = (target / step).min(1900) + r.range_i64(0, 40) as i128;
            rep.class("series/long-span");
        }
        let (rmd, tag): (i128, Vec<&str>) = match r.below(5) {
            0 => (0, vec!["series/exact-multiple"]),
            1 => (1.min(step - 1), if step > 1 { vec!["series/one-ns-over"] } else { vec!["series/exact-multiple"] }),
            2 => (step - 1, vec!["series/step-minus-one"]),
            _ => (r.range_i128(0, step - 1), vec![]),
        };
        let span = n * step + rmd;
        let sc = match r.below(6) {
            0 => {
                // start shortly before a leap second (UTC-relevant) or a century boundary
                if r.bool() {
                    let (ts, _) = *r.pick(&w.leap);
                    let t = ts as i128 * NS_S - r.range_i128(0, span.max(1));
                    match w.from_tai(t, ss) {
                        Some(x) => x,
                        None => continue,
                    }
                } else {
                    r.range_i64(-3, 3) as i128 * NPC - r.range_i128(0, span.max(1))
                }
            }
            1 => -gen::rand_count_within(&mut r, 2 * NPC).abs() - 1,
            _ => gen::rand_reading(&mut r, ss, &lats[si]),
        };
        // whole-century remainders: span = j centuries + m*step
        let span = if k % 5 == 0 && r.bool() { let j = r.range_i64(1, 3) as i128; j * NPC + (span / step).min(50) * step } else { span };
        // end: `span` after the reading of start's instant in the end's scale
        let ec = if es == ss {
            sc + span
        } else {
            match w.from_tai(w.to_tai(sc, ss), es) {
                Some(x) => x + span,
                None => continue,
            }
        };
        let incl = r.bool();
        let tg: Vec<&str> = if es == ss || !(is_dyn(es) || is_dyn(ss)) { tag } else { vec![] };
        check(rep, &w, sc, ss, ec, es, step, incl, &tg);
        if k % 64 == 0 {
            // end before start / equal to start: empty or single-item series
            check(rep, &w, sc, ss, sc, ss, step, incl, &[]);
        }
        if k % 16 == 3 && std::env::var("VERIF_C15_END_BEFORE_START").is_ok() {
            // (outside the quantifier of C15, which has end - start >= 0: development aid only, off in every registered run)
            // an end before the start by less than a step, by a step, by more (same or another scale)
            let back = match r.below(4) {
                0 => 1,
                1 => r.range_i128(1, step),
                2 => step,
                _ => step * r.range_i64(1, 20) as i128 + r.range_i128(0, step - 1),
            };
            if es == ss {
                check(rep, &w, sc, ss, sc - back, ss, step, incl, &[]);
            } else if let Some(x) = w.from_tai(w.to_tai(sc, ss), es) {
                check(rep, &w, sc, ss, x - back, es, step, incl, &[]);
            }
        }
    }
    // span / step pairs that are large in every machine width (seed-independent)
    if !cfg.fuzz {
        let mut li = 0usize;
        for p in [31u32, 32, 33, 53, 62, 63, 64, 65, 70] {
            for step in [1i128, 2, 3, 7, 1000, NS_S + 1] {
                for extra in [0i128, 1, 5, 39, 40] {
                    for q in [1i128, 2, 3] {
                        li += 1;
                        if li % NSHARDS as usize != sh {
                            continue;
                        }
                        // count = q * 2^p + extra (+1 when inclusive) items
                        let span = (q * (1i128 << p) + extra) * step + if li % 3 == 0 { step - 1 } else { 0 };
                        let ss = SCALES[li % 9];
                        let sc = if li % 2 == 0 { -span / 2 } else { -(li as i128) * NS_D };
                        check_prefix(rep, sc, ss, span, step, li % 2 == 0);
                        check_prefix(rep, sc, ss, span, step, li % 2 == 1);
                    }
                }
            }
        }
    }
    // one series walked past 2^31 items (thorough only, one shard, about ten seconds): a cursor narrower than the count
    if cfg.tier == Tier::Thorough && sh == 9 && cfg.budget_div == 1 {
        let n: i128 = (1i128 << 31) + 6;
        let (sc, ss) = (3_918_412_800_123_456_789i128, TimeScale::TAI);
        let (start, end) = (ep(sc, ss), ep(sc + n, ss));
        rep.class("series/walked-past-2^31-items");
        let _ = rep.tick();
        match guard(|| {
            let mut k: i128 = 0;
            let mut bad: Option<(i128, i128)> = None;
            for e in TimeSeries::exclusive(start, end, mk(1)) {
                let g = count_d(e.duration);
                if g != sc + k && bad.is_none() {
                    bad = Some((k, g));
                    break;
                }
                k += 1;
                if k > n + 2 {
                    break;
                }
            }
            (k, bad)
        }) {
            Err(p) => rep.fail(&format!("series/panic/{}", p.class()), None, || format!("walking 2^31 + 6 items at 1 ns steps panicked: {} at {}", p.msg, p.loc)),
            Ok((k, bad)) => {
                if let Some((kk, g)) = bad {
                    rep.fail("series/long-walk-item", None, || format!("1 ns series from ({sc}, TAI): item {kk} = {g}, want {}", sc + kk));
                } else if k != n {
                    rep.fail("series/long-walk-count", None, || format!("1 ns exclusive series over 2^31 + 6 ns yielded {k} items, want {n}"));
                }
            }
        }
    }
    // a few long series (thorough only): millions of items, ns / odd steps, across a leap second
    if cfg.tier == Tier::Thorough && sh < 8 {
        let (ts, _) = w.leap[(sh * 3) % w.leap.len()];
        let n = 2_000_000 + 400_000 * sh as i128;
        let step = [1i128, 3, 1000, 999_999_937, NS_S, 7, 1_000_003, 86_400_000_000_001][sh];
        let sc = ts as i128 * NS_S - n * step / 2;
        let ss = [TimeScale::UTC, TimeScale::TAI, TimeScale::GPST, TimeScale::UTC, TimeScale::TT, TimeScale::ET, TimeScale::BDT, TimeScale::TDB][sh];
        check(rep, &w, sc, ss, sc + n * step + sh as i128 % 2, ss, step, sh % 2 == 0, &["series/long"]);
    }
}
