//! Cold-start probes: history diversity for state that outlives a call.
//!
//! Every other workload of a check runs inside one long-lived process, so whatever process-global state the library
//! keeps (a memo cache, a lazily initialised table, a "last value" accumulator) is warm for all but the first call,
//! and which call comes first is an accident of the workload order. A probe is a fresh process whose very first
//! library calls are the monitors of the property applied to one *anchor* (a zero-like or otherwise distinguished
//! key: year 0, the reference epoch of a scale, the zero duration, a bound, the first / last leap second ...), judged
//! by the same oracles as everywhere else. hfcheck runs probe 0 .. COUNT-1 as child processes of the deciding run and
//! merges what they report (shard number 100 + probe index; `--replay` of such an event runs the probe in-process,
//! which is again a cold start).
use crate::core::*;
use crate::model::dur::*;
use crate::model::dynm;
use crate::model::leap;
use crate::model::scale::*;
use crate::model::text::{count_of, Fields};
use crate::props::*;
use hifitime::{TimeScale, Unit};

/// (year, scale) anchors; the anchor instant is 1 January 00:00:00 of that year in that scale
pub const EPOCH_ANCHORS: [(i32, TimeScale); 14] = [
    (0, TimeScale::TAI),
    (0, TimeScale::UTC),
    (0, TimeScale::ET),
    (1, TimeScale::TAI),
    (-1, TimeScale::TAI),
    (1900, TimeScale::TAI),
    (1900, TimeScale::UTC),
    (1970, TimeScale::UTC),
    (1972, TimeScale::UTC),
    (1980, TimeScale::GPST),
    (1999, TimeScale::GST),
    (2000, TimeScale::TDB),
    (2006, TimeScale::BDT),
    (2017, TimeScale::UTC),
];

pub const COUNT: usize = EPOCH_ANCHORS.len();

fn dur_anchor(i: usize) -> i128 {
    [0, 1, -1, NPC, -NPC, MAX_NS, MIN_NS, NS_D, -NS_D, i64::MAX as i128, 1i128 << 53, 1_000_000_000, NPC - 1, 2 * NPC][i % 14]
}

pub fn run(prop: &str, _cfg: &Cfg, rep: &mut Rep, i: usize) {
    let (y, s) = EPOCH_ANCHORS[i % COUNT];
    let f0 = Fields { y: y as i64, m: 1, d: 1, h: 0, mi: 0, s: 0, ns: 0 };
    let c = count_of(&f0, s);
    let w = World::new(dynm::NAIF);
    let tab = leap::table();
    let da = dur_anchor(i);
    let d = mk(da);
    let uniform = !matches!(s, TimeScale::UTC | TimeScale::ET | TimeScale::TDB);
    rep.class("cold-start-probe");
    match prop {
        "C01" => {
            c01::check_unary(rep, d);
            c01::check_pair(rep, d, d);
            c01::check_pair(rep, d, mk(1));
            c01::check_scalar(rep, d, 0);
            c01::check_scalar(rep, d, -1);
            c01::check_scalar(rep, d, 7);
        }
        "C02" => {
            c02::check_total(rep, da);
            c02::check_readback(rep, d);
            let (cc, nn) = canon(da.clamp(MIN_NS, MAX_NS));
            c02::check_parts(rep, cc, nn);
            c02::check_i64(rep, da.clamp(i64::MIN as i128, i64::MAX as i128) as i64);
            c02::check_unit(rep, (i as i64) - 1, Unit::Second);
            c02::check_compose(rep, if i % 3 == 0 { 0 } else if i % 3 == 1 { 1 } else { -1 }, [0, 0, 0, 0, 0, 0, i as u64]);
            c02::check_std(rep, i as u64, 0);
            c02::check_consts(rep);
        }
        "C03" => {
            c03::check_pair(rep, d, d);
            c03::check_pair(rep, d, mk(0));
            c03::check_pair(rep, mk(0), d);
            c03::check_unit(rep, d);
            c03::check_sort(rep, vec![d, mk(0), mk(-1), mk(1), mk(MAX_NS), mk(MIN_NS)]);
        }
        "C04" => {
            c04::check_add(rep, c, s, 0);
            c04::check_add(rep, c, s, da.clamp(-NPC, NPC));
            c04::check_unit(rep, c, s);
            c04::check_f64(rep, c, s, 0);
            c04::check_f64(rep, c, s, 86400);
            c04::check_diff(rep, &w, c, s, c, s);
            c04::check_diff(rep, &w, c + NS_D, s, c, TimeScale::TAI);
        }
        "C05" => {
            if uniform {
                c05::check(rep, c, s, 0);
                c05::check(rep, c, s, NS_D);
                c05::check(rep, 0, s, 0);
            } else {
                c05::check(rep, c, TimeScale::TAI, 0);
                c05::check(rep, 0, TimeScale::TT, 1);
            }
        }
        "C06" => {
            let u = if s == TimeScale::UTC { c } else { w.from_tai(w.to_tai(c, s), TimeScale::UTC).unwrap_or(0) };
            c06::check_utc(rep, &w, u, None);
            c06::check_utc(rep, &w, 0, None);
            let k = i % tab.len();
            c06::check_utc(rep, &w, tab[k].0 as i128 * NS_S, None);
            c06::check_utc(rep, &w, tab[k].0 as i128 * NS_S - 1, None);
            c06::check_monotone(rep, &w, vec![w.to_tai(u, TimeScale::UTC), tab[k].0 as i128 * NS_S, tab[k].0 as i128 * NS_S + tab[k].1 as i128 * NS_S, 0]);
        }
        "C07" => {
            let t = w.to_tai(c, s);
            for dy in [TimeScale::ET, TimeScale::TDB] {
                c07::check(rep, &w, t, TimeScale::TAI, dy);
                c07::check_from(rep, &w, 0, dy, TimeScale::TAI);
                c07::check_from(rep, &w, if s == dy { c } else { 0 }, dy, TimeScale::TT);
                c07::check_order(rep, t, 1000, TimeScale::TAI, dy);
            }
        }
        "C08" => {
            c08::check(rep, &tab, y, 1, 1, 0, 0, 0, 0, s, true);
            c08::check(rep, &tab, y, 12, 31, 23, 59, 59, 999_999_999, s, true);
            c08::check(rep, &tab, y, 2, 29, 0, 0, 0, 0, s, false);
            c08::check(rep, &tab, y, 0, 1, 0, 0, 0, 0, s, false);
            c08::check_family_reject(rep, &tab, y, 1, 32, 0, 0, 0, 0, s);
        }
        "C09" => {
            c09::check(rep, &w, c, s, true);
            c09::check(rep, &w, c - 1, s, true);
            c09::check(rep, &w, 0, s, true);
        }
        "C10" => {
            c10::check_roundtrip(rep, c, s);
            c10::check_roundtrip(rep, 0, s);
            c10::check_roundtrip(rep, c + 1, s);
            if (0..=9999).contains(&y) {
                c10::check_text(rep, &f0, 0, 'T', None, true, None);
                c10::check_text(rep, &f0, 9, ' ', Some(0), false, None);
                c10::check_text(rep, &f0, 3, 'T', None, false, Some(s));
            }
            c10::check_numeric(rep, "SEC", 0.0, TimeScale::TAI);
            c10::check_numeric(rep, "MJD", 15020.0, TimeScale::UTC);
            c10::check_numeric(rep, "JD", 2_451_545.0, TimeScale::TT);
        }
        "C11" => {
            c11::check_dur(rep, da);
            c11::check_dur(rep, 0);
            c11::check_text(rep, "0 ns", 0, "cold");
            c11::check_text(rep, "1 d", NS_D, "cold");
        }
        "C12" => {
            c12::check_pair(rep, &w, c, s, c, s);
            let t = w.to_tai(c, s);
            c12::check_pair(rep, &w, c, s, t, TimeScale::TAI);
            c12::check_pair(rep, &w, 0, TimeScale::TAI, c, s);
            c12::check_convert(rep, &w, c, s, c + NS_S, s, TimeScale::TT);
            c12::check_sort(rep, &w, vec![(c, s), (0, TimeScale::TAI), (t - NS_S, TimeScale::TAI), (c + NS_D, s)]);
        }
        "C13" => {
            for txt in ["", "0", "0000-00-00T00:00:00", "0000-01-01T00:00:00 TAI", "0 ns", "%Y", "TAI", "Monday", "January", "JD 0 TAI", "SEC 0 UTC", "-0", "\u{0}"] {
                c13::feed(rep, txt, "%Y-%m-%dT%H:%M:%S", "cold", true);
            }
            c13::check_out_of_range(rep, y as i64, 13, 1, 0, 0, 0, "", "month 13");
            c13::check_out_of_range(rep, y as i64, 1, 1, 25, 0, 0, " UTC", "hour 25");
        }
        "C14" => {
            c14::check(rep, d, mk(NS_S));
            c14::check(rep, d, d);
            c14::check(rep, mk(0), mk(1));
            c14::check_epoch(rep, c05::ep(c, s), mk(NS_D));
            c14::check_epoch(rep, c05::ep(c + 1, s), mk(NS_H));
            c14::check_approx(rep, d);
        }
        "C15" => {
            c15::check(rep, &w, c, s, c + 10 * NS_D, s, NS_D, true, &[]);
            c15::check(rep, &w, c, s, c + 10 * NS_D, s, NS_D, false, &[]);
            c15::check(rep, &w, c, s, c, s, 1, true, &[]);
            c15::check(rep, &w, 0, TimeScale::TAI, 5, TimeScale::TAI, 1, false, &[]);
        }
        "C16" => {
            c16::check_epoch(rep, &w, c, s, true);
            c16::check_epoch(rep, &w, c - 1, s, true);
            c16::check_epoch(rep, &w, 0, s, true);
        }
        "C17" => {
            c17::check_views(rep, &w, c, s);
            c17::check_views(rep, &w, 0, s);
            for kind in 0..4u8 {
                c17::check_build(rep, kind, 0.0);
            }
            c17::check_build_in_scale(rep, i % 2 == 0, 2_451_545.0, if uniform { s } else { TimeScale::TAI });
        }
        "C18" => {
            c18::check_out(rep, d);
            c18::check_in(rep, 0.0, Unit::Second);
            c18::check_in(rep, i as f64, Unit::Day);
            c18::check_in(rep, -0.0, Unit::Nanosecond);
            c18::check_mulf(rep, d, 0.0);
            c18::check_mulf(rep, d, 1.0);
            c18::check_compose_f64(rep, 1, [0.0; 7]);
            c18::check_unit_consts(rep);
        }
        "C19" => {
            c19::check_consts(rep, c, s, 0);
            c19::check_consts(rep, 0, s, 0);
            let mut r = Rng::new(i as u64, 0x19c0);
            for _ in 0..4 {
                let f = c19::rand_fmt_pub(&mut r, true);
                c19::check_render(rep, &f, c, s, 0, s == TimeScale::UTC);
            }
        }
        "C20" => {
            c20::check_tow(rep, 0, 0, s);
            c20::check_tow(rep, i as u32, 0, s);
            c20::check_tow_of(rep, 0, s);
            for g in [TimeScale::GPST, TimeScale::QZSST, TimeScale::GST, TimeScale::BDT] {
                c20::check_ctr_from(rep, 0, g);
                c20::check_ctr_of(rep, 0, g, g);
                c20::check_ctr_of_any(rep, &w, c, s, g);
            }
            c20::check_doy(rep, y, 1.0, s);
            c20::check_doy(rep, y, 365.0, s);
        }
        _ => {}
    }
}
