//! C03 Duration ordering and equality agree with the signed value.
use crate::core::*;
use crate::gen;
use crate::model::dur::*;
use hifitime::{Duration, TimeUnits, Unit};
use std::cmp::Ordering;

pub fn meta() -> Meta {
    Meta {
        rule: "events = every comparison operator (== != < <= > >= cmp partial_cmp min max) on one ordered pair of durations, comparisons with a Unit, a+b > a for the pair, and slice::sort of vectors of 2..200 durations; expected from the i128 counts (total order; == true for equal counts, false when magnitudes differ or for exact negations beyond one century; == between a duration and its exact negation within one century is don't-care). Generation: all lattice pairs, pairs with century fields differing by exactly one ((c,n) vs (c+-1,NPC-n), (c+-1,n)), pairs straddling zero, pairs summing to one century, random pairs/triples. Non-trivial = counts equal, magnitudes equal, century fields differ by exactly one, operands straddle zero, or either operand at a bound; distinct = distinct pair hashes among those. Round 6: provenance routes include every operation that can end on the count ((-c).abs(), MAX - (MAX - c), MIN + (c - MIN), +0, *-1, Unit forms, min/max, floor/round/ceil by 1 ns, *1.0, compose(decomposed), (e + c) - e, from_str(Display)); sorts are repeated through sort_by(partial_cmp), BTreeSet, binary_search, Iterator::max/min/max_by/min_by_key and Ord::clamp.",
        assumptions: &["operands read through to_parts()"],
        mandatory: &["pair/centuries-differ-by-one", "pair/straddle-zero", "pair/equal-count", "pair/exact-negation", "pair/mirror-across-century", "sort/vector", "unit/compare", "unit/exact-negation"],
        thorough_scale: 60,
        exhaustive_part: "all ordered pairs of the duration boundary lattice",
    }
}

pub fn check_pair(rep: &mut Rep, a: Duration, b: Duration) {
    if !rep.tick() {
        return;
    }
    let (pa, pb) = (a.to_parts(), b.to_parts());
    let (ca, cb) = (count(pa), count(pb));
    let want = ca.cmp(&cb);
    let mut nt = false;
    if (pa.0 as i32 - pb.0 as i32).abs() == 1 {
        rep.class("pair/centuries-differ-by-one");
        nt = true;
        if pa.1 as i128 + pb.1 as i128 == NPC {
            rep.class("pair/mirror-across-century");
        }
    }
    if (ca < 0) != (cb < 0) {
        rep.class("pair/straddle-zero");
        nt = true;
    }
    if ca == cb {
        rep.class("pair/equal-count");
        nt = true;
    } else if ca == -cb {
        rep.class("pair/exact-negation");
        nt = true;
    }
    if ca == MIN_NS || ca == MAX_NS || cb == MIN_NS || cb == MAX_NS {
        rep.class("pair/at-bound");
        nt = true;
    }
    if nt {
        rep.nt(h64(&[pa.0 as u64, pa.1, pb.0 as u64, pb.1]));
    }
    rep.log_event("cmp", || format!("\"a\":[{},{}],\"b\":[{},{}],\"want\":{}", pa.0, pa.1, pb.0, pb.1, want as i8));
    rep.sample("pair", || format!("{} vs {} => {:?}", fmt_parts(pa), fmt_parts(pb), want));
    let res = guard(|| {
        (
            a == b,
            a != b,
            a < b,
            a <= b,
            a > b,
            a >= b,
            a.cmp(&b),
            a.partial_cmp(&b),
            a.min(b).to_parts(),
            a.max(b).to_parts(),
            std::cmp::Ord::min(a, b).to_parts(),
            std::cmp::Ord::max(a, b).to_parts(),
        )
    });
    let det = || format!("{} vs {}", fmt_parts(pa), fmt_parts(pb));
    match res {
        Err(e) => rep.fail(&format!("cmp/panic/{}", e.class()), None, || format!("{} panicked: {}", det(), e.msg)),
        Ok((eq, ne, lt, le, gt, ge, c, pc, mn, mx, omn, omx)) => {
            if c != want {
                rep.fail("cmp/value", None, || format!("{}: cmp = {:?} want {:?}", det(), c, want));
            }
            if pc != Some(want) {
                rep.fail("partial_cmp/value", None, || format!("{}: partial_cmp = {:?} want {:?}", det(), pc, want));
            }
            if lt != (want == Ordering::Less) || gt != (want == Ordering::Greater) || le != (want != Ordering::Greater) || ge != (want != Ordering::Less) {
                rep.fail("relational/value", None, || format!("{}: < {} <= {} > {} >= {} want {:?}", det(), lt, le, gt, ge, want));
            }
            // equality
            if eq == ne {
                rep.fail("eq/ne-inconsistent", None, || format!("{}: == {} != {}", det(), eq, ne));
            }
            if ca == cb {
                if !eq {
                    rep.fail("eq/equal-counts-not-equal", None, || format!("{}: same count but == is false", det()));
                }
            } else if ca == -cb && ca.abs() < NPC {
                // documented: a duration equals its exact negation within one century of zero (don't care)
                rep.class(if eq { "eq/negation-equal(dc)" } else { "eq/negation-unequal(dc)" });
            } else if eq {
                rep.fail("eq/different-counts-equal", None, || format!("{}: counts {} and {} differ but == is true", det(), ca, cb));
            }
            // min / max
            let (wmn, wmx) = if ca <= cb { (ca, cb) } else { (cb, ca) };
            if count(mn) != wmn || count(mx) != wmx {
                rep.fail("minmax/value", None, || format!("{}: min {} max {}", det(), fmt_parts(mn), fmt_parts(mx)));
            }
            if count(omn) != wmn || count(omx) != wmx {
                rep.fail("ord-minmax/value", None, || format!("{}: Ord::min {} Ord::max {}", det(), fmt_parts(omn), fmt_parts(omx)));
            }
        }
    }
    // a + b > a  <=>  b > 0 (away from saturation)
    let s = ca + cb;
    if s > MIN_NS && s < MAX_NS && rep.tick() {
        match guard(|| (a + b > a, a + b < a, a + b == a)) {
            Err(_) => {} // judged by C01
            Ok((g, l, _e)) => {
                // only judge when the sum itself is right (C01 judges the sum)
                if count_d(a + b) == s && (g != (cb > 0) || l != (cb < 0)) {
                    rep.fail("sum-order/value", None, || format!("{}: a+b>a is {} a+b<a is {} but b count is {}", det(), g, l, cb));
                }
            }
        }
    }
}

pub fn check_unit(rep: &mut Rep, a: Duration) {
    let pa = a.to_parts();
    let ca = count(pa);
    // negative < zero < positive: the sign predicate follows the signed count
    if let Ok(neg) = guard(|| a.is_negative()) {
        if neg != (ca < 0) {
            rep.fail("is_negative/value", None, || format!("{}.is_negative() = {} (count {})", fmt_parts(pa), neg, ca));
        }
    }
    for u in UNITS {
        if !rep.tick() {
            continue;
        }
        rep.class("unit/compare");
        let cu = unit_ns(u);
        let want = ca.cmp(&cu);
        match guard(|| (a.partial_cmp(&u), a < u, a > u, a <= u, a >= u, a == u)) {
            Err(e) => rep.fail(&format!("unit-cmp/panic/{}", e.class()), None, || format!("{} vs {:?} panicked {}", fmt_parts(pa), u, e.msg)),
            Ok((pc, lt, gt, le, ge, eq)) => {
                // only `==` between a duration and its exact negation (within one century) is don't-care;
                // the ordering operators must still follow the signed counts
                let negation = ca == -cu && cu < NPC && ca != 0;
                if negation {
                    rep.class("unit/exact-negation");
                }
                if lt != (want == Ordering::Less) || gt != (want == Ordering::Greater) {
                    rep.fail("unit-cmp/value", None, || format!("{} vs {:?}: < {} > {} want {:?}", fmt_parts(pa), u, lt, gt, want));
                }
                if !negation && eq != (ca == cu) {
                    rep.fail("unit-eq/value", None, || format!("{} == {:?} is {} (counts {} {})", fmt_parts(pa), u, eq, ca, cu));
                }
                if ca != cu && (pc != Some(want) || le != (want != Ordering::Greater) || ge != (want != Ordering::Less)) {
                    rep.fail("unit-cmp/value", None, || format!("{} vs {:?}: partial_cmp {:?} <= {} >= {} want {:?}", fmt_parts(pa), u, pc, le, ge, want));
                }
            }
        }
    }
}

pub fn check_sort(rep: &mut Rep, v: Vec<Duration>) {
    if !rep.tick() {
        return;
    }
    rep.class("sort/vector");
    let mut want: Vec<i128> = v.iter().map(|d| count_d(*d)).collect();
    want.sort();
    let n = v.len();
    let first = v.first().map(|d| d.to_parts());
    // everything else the standard library derives from the order: partial_cmp as a sort key, BTreeSet order, binary search,
    // Iterator::max / min, clamp of every element to the window its neighbours span
    {
        let v2 = v.clone();
        match guard(move || {
            let mut pc = v2.clone();
            pc.sort_by(|a, b| a.partial_cmp(b).unwrap());
            let set: std::collections::BTreeSet<Duration> = v2.iter().copied().collect();
            let mut st = v2.clone();
            st.sort();
            let found: Vec<bool> = v2.iter().map(|d| st.binary_search(d).map(|i| count_d(st[i]) == count_d(*d)).unwrap_or(false)).collect();
            let clamps: Vec<(i128, i128, i128, i128)> = (0..v2.len().saturating_sub(2)).map(|i| {
                let (x, p, q) = (v2[i], v2[i + 1], v2[i + 2]);
                let (lo, hi) = if count_d(p) <= count_d(q) { (p, q) } else { (q, p) };
                (count_d(x), count_d(lo), count_d(hi), count_d(Ord::clamp(x, lo, hi)))
            }).collect();
            (pc, set.into_iter().collect::<Vec<_>>(), found, v2.iter().copied().max(), v2.iter().copied().min(), clamps, v2.iter().copied().max_by(|a, b| a.partial_cmp(b).unwrap()), v2.iter().copied().min_by_key(|d| *d))
        }) {
            Err(e) => rep.fail(&format!("sort/panic/{}", e.class()), None, || format!("ordering {n} durations through the standard library panicked: {} at {}", e.msg, e.loc)),
            Ok((pc, set, found, mx, mn, clamps, mxb, mnk)) => {
                let g: Vec<i128> = pc.iter().map(|d| count_d(*d)).collect();
                if g != want {
                    rep.fail("sort/std-consumer", None, || format!("sort_by(partial_cmp) of {n} durations is not the sorted permutation"));
                }
                let mut uniq = want.clone();
                uniq.dedup();
                let g: Vec<i128> = set.iter().map(|d| count_d(*d)).collect();
                // (BTreeSet::from_iter sorts and then merges *adjacent keys that are ==*: the documented equality of a duration
                // and its exact negation within one century of zero may merge such a pair - the only difference left open)
                let ascending = g.windows(2).all(|w| w[0] < w[1]);
                let explained = uniq.iter().filter(|x| !g.contains(x)).all(|m| m.abs() < NPC && g.contains(&-m)) && g.iter().all(|x| uniq.contains(x));
                if g != uniq && !(ascending && explained) {
                    rep.fail("sort/std-consumer", None, || format!("a BTreeSet of {n} durations iterates {} values, want the {} distinct counts in order; missing {:?}, got {:?}", g.len(), uniq.len(), uniq.iter().filter(|x| !g.contains(x)).collect::<Vec<_>>(), g));
                }
                if found.iter().any(|f| !f) {
                    rep.fail("sort/std-consumer", None, || format!("binary_search in the sorted vector of {n} durations does not find one of its own elements"));
                }
                for (name, got, wv) in [("Iterator::max", mx, want.last()), ("Iterator::max_by(partial_cmp)", mxb, want.last()), ("Iterator::min", mn, want.first()), ("Iterator::min_by_key", mnk, want.first())] {
                    if got.map(count_d) != wv.copied() {
                        rep.fail("sort/std-consumer", None, || format!("{name} of {n} durations = {:?}, want count {:?}", got.map(|d| d.to_parts()), wv));
                    }
                }
                for (x, lo, hi, got) in clamps {
                    if got != x.clamp(lo, hi) {
                        rep.fail("sort/clamp", None, || format!("Ord::clamp of count {x} to [{lo}, {hi}] = {got}, want {}", x.clamp(lo, hi)));
                    }
                }
            }
        }
    }
    match guard(move || {
        let mut w = v.clone();
        w.sort();
        let mut u = v;
        u.sort_unstable();
        (w, u)
    }) {
        Err(e) => rep.fail(&format!("sort/panic/{}", e.class()), None, || format!("sort of {n} durations panicked {}", e.msg)),
        Ok((w, u)) => {
            let got: Vec<i128> = w.iter().map(|d| count_d(*d)).collect();
            let got2: Vec<i128> = u.iter().map(|d| count_d(*d)).collect();
            if got != want || got2 != want {
                rep.fail("sort/value", None, || format!("sort of {n} durations (first {:?}) is not the sorted permutation", first));
            }
        }
    }
}

/// "Two durations with the same count are equal": the same signed count reached through every constructor and through
/// arithmetic must be one value for ==, cmp, the operators, min / max - whatever route produced it (a route that leaves a
/// non-canonical (centuries, nanoseconds) pair behind shows up here as `Less` / `!=` between equal counts).
pub fn check_provenance(rep: &mut Rep, c: i128, other: i128) {
    if !rep.tick() {
        return;
    }
    let c = clamp(c);
    let reference = mk(c);
    let mut routes: Vec<(&'static str, Duration)> = vec![];
    let r = guard(|| {
        let mut v: Vec<(&'static str, Duration)> = vec![("from_total_nanoseconds", Duration::from_total_nanoseconds(c))];
        let (cc, nn) = canon(c);
        v.push(("from_parts", Duration::from_parts(cc, nn)));
        if cc > i16::MIN {
            v.push(("from_parts(c-1, ns+NPC)", Duration::from_parts(cc - 1, nn + NPC as u64)));
        }
        if c >= i64::MIN as i128 && c <= i64::MAX as i128 {
            let n = c as i64;
            v.push(("from_truncated_nanoseconds", Duration::from_truncated_nanoseconds(n)));
            v.push(("n * Unit::Nanosecond", n * Unit::Nanosecond));
            v.push(("Unit::Nanosecond * n", Unit::Nanosecond * n));
            v.push(("n.nanoseconds()", n.nanoseconds()));
        }
        for (u, name) in [(Unit::Century, "k * Unit::Century"), (Unit::Week, "k * Unit::Week"), (Unit::Day, "k * Unit::Day"), (Unit::Hour, "k * Unit::Hour"), (Unit::Second, "k * Unit::Second"), (Unit::Microsecond, "k * Unit::Microsecond")] {
            let f = unit_ns(u);
            if c % f == 0 && (c / f).abs() <= i64::MAX as i128 {
                v.push((name, (c / f) as i64 * u));
                if c.abs() < (1 << 53) {
                    // (exact by C18: a whole number of nanoseconds below 2^53)
                    v.push(("x * Unit (float)", ((c / f) as f64) * u));
                }
            }
        }
        if c % NS_D == 0 && (c / NS_D).abs() <= i64::MAX as i128 {
            v.push(("k.days()", ((c / NS_D) as i64).days()));
        }
        if c % NPC == 0 {
            v.push(("k.centuries()", ((c / NPC) as i64).centuries()));
        }
        // arithmetic routes (exact by C01 whenever the intermediate values are representable)
        let o = clamp(other);
        if (MIN_NS..=MAX_NS).contains(&(c - o)) {
            v.push(("(c - o) + o", mk(c - o) + mk(o)));
            let mut t = mk(c - o);
            t += mk(o);
            v.push(("(c - o) += o", t));
        }
        if (MIN_NS..=MAX_NS).contains(&(c + o)) {
            v.push(("(c + o) - o", mk(c + o) - mk(o)));
        }
        if c != MIN_NS && c != MAX_NS {
            v.push(("-(-c)", -(-mk(c))));
            v.push(("-mk(-c)", -mk(-c)));
        }
        v.push(("c * 1", mk(c) * 1));
        v.push(("c / 1", mk(c) / 1));
        if c % 2 == 0 {
            v.push(("(c / 2) * 2", mk(c / 2) * 2));
            v.push(("(c/2) + (c/2)", mk(c / 2) + mk(c / 2)));
        }
        v.push(("c.abs() or -c.abs()", if c >= 0 { mk(c).abs() } else if c != MIN_NS { -(mk(c).abs()) } else { mk(c) }));
        // the last operation of a route is what leaves the (centuries, nanoseconds) pair behind: every operation of C01 / C02 /
        // C04 / C11 / C14 that can *end* on this count is a route of its own (an intermediate re-normalising step hides the rest)
        if c >= 0 {
            v.push(("(-c).abs()", mk(-c).abs()));
            v.push(("MAX - (MAX - c)", mk(MAX_NS) - mk(MAX_NS - c)));
            if c <= u64::MAX as i128 * NS_S {
                v.push(("from std", Duration::from(std::time::Duration::new((c / NS_S) as u64, (c % NS_S) as u32))));
            }
        } else {
            v.push(("MIN + (c - MIN)", mk(MIN_NS) + mk(c - MIN_NS)));
            v.push(("MIN - (MIN - c)", mk(MIN_NS) - mk(MIN_NS - c)));
        }
        v.push(("c + 0", mk(c) + mk(0)));
        v.push(("c - 0", mk(c) - mk(0)));
        v.push(("0 + c", mk(0) + mk(c)));
        if c != MIN_NS && c != MAX_NS {
            v.push(("0 - (-c)", mk(0) - mk(-c)));
            v.push(("(-c) * -1", mk(-c) * -1));
            v.push(("(-c) / -1", mk(-c) / -1));
            v.push(("-1 * (-c)", -1 * mk(-c)));
        }
        for u in [Unit::Nanosecond, Unit::Second, Unit::Day, Unit::Century] {
            let f = unit_ns(u);
            if (MIN_NS..=MAX_NS).contains(&(c - f)) {
                v.push(("(c - U) + Unit", mk(c - f) + u));
                let mut t = mk(c - f);
                t += u;
                v.push(("(c - U) += Unit", t));
            }
            if (MIN_NS..=MAX_NS).contains(&(c + f)) {
                v.push(("(c + U) - Unit", mk(c + f) - u));
                let mut t = mk(c + f);
                t -= u;
                v.push(("(c + U) -= Unit", t));
            }
        }
        v.push(("min(c, MAX)", mk(c).min(mk(MAX_NS))));
        v.push(("max(c, MIN)", mk(c).max(mk(MIN_NS))));
        if c > -NPC {
            // (floor / ceil / round below -1 century are known finding F1)
            v.push(("c.floor(1 ns)", mk(c).floor(mk(1))));
            v.push(("c.round(1 ns)", mk(c).round(mk(1))));
            if c > MIN_NS + 1 && c > -NPC + 1 {
                v.push(("(c - 1).ceil(1 ns)", mk(c - 1).ceil(mk(1))));
            }
        }
        if c.abs() < (1 << 53) {
            v.push(("c * 1.0", mk(c) * 1.0));
            v.push(("1.0 * c", 1.0 * mk(c)));
        }
        {
            // compose(decompose)
            let a = c.unsigned_abs();
            let (ns_d, ns_h, ns_m, ns_s) = (NS_D as u128, NS_H as u128, NS_MIN as u128, NS_S as u128);
            let days = a / ns_d;
            if days <= u64::MAX as u128 {
                let r = a % ns_d;
                v.push(("compose(decomposed fields)", Duration::compose(if c < 0 { -1 } else { 1 }, days as u64, (r / ns_h) as u64, (r % ns_h / ns_m) as u64, (r % ns_m / ns_s) as u64, (r % ns_s / 1_000_000) as u64, (r % 1_000_000 / 1000) as u64, (r % 1000) as u64)));
            }
        }
        // an epoch difference that equals c (C04: (e + d) - e == d exactly in one scale)
        for base in [0i128, -NS_D, 3 * NPC - 5] {
            if (MIN_NS + NS_D..=MAX_NS - NS_D).contains(&(base + c)) && (MIN_NS + NS_D..=MAX_NS - NS_D).contains(&c) {
                let e0 = hifitime::Epoch::from_tai_duration(mk(base));
                v.push(("(e + c) - e", (e0 + mk(c)) - e0));
                v.push(("e1 - e0", hifitime::Epoch::from_tai_duration(mk(base + c)) - e0));
            }
        }
        if c.abs() <= 100 * NPC {
            // text and serde round trips (C11: identical duration)
            if let Ok(d) = <Duration as std::str::FromStr>::from_str(&format!("{}", mk(c))) {
                v.push(("from_str(Display)", d));
            }
        }
        v
    });
    match r {
        Err(e) => {
            rep.fail(&format!("provenance/panic/{}", e.class()), None, || format!("building count {} through its routes panicked: {} at {}", c, e.msg, e.loc));
            return;
        }
        Ok(v) => routes.extend(v),
    }
    rep.class("provenance");
    if c % NPC == 0 {
        rep.class("provenance/whole-centuries");
    }
    rep.nt(h64(&[77, c as u64, (c >> 64) as u64]));
    for (name, d) in routes {
        match guard(|| (d == reference, reference == d, d.cmp(&reference), reference.cmp(&d), d < reference, d > reference, d <= reference, d >= reference, d.min(reference), d.max(reference), std::cmp::min(d, reference), std::cmp::max(d, reference))) {
            Err(e) => rep.fail(&format!("provenance/panic/{}", e.class()), None, || format!("comparing {} (via {name}) panicked: {}", fmt_parts(d.to_parts()), e.msg)),
            Ok((e1, e2, o1, o2, lt, gt, le, ge, mn, mx, mn2, mx2)) => {
                if !(e1 && e2) || o1 != Ordering::Equal || o2 != Ordering::Equal || lt || gt || !le || !ge {
                    rep.fail("provenance/same-count-not-equal", None, || format!("count {} via {name} = {} against {}: == {} / {} cmp {:?} / {:?} < {} > {} <= {} >= {}", c, fmt_parts(d.to_parts()), fmt_parts(reference.to_parts()), e1, e2, o1, o2, lt, gt, le, ge));
                }
                for m in [mn, mx, mn2, mx2] {
                    if count_d(m) != c {
                        rep.fail("provenance/minmax", None, || format!("count {} via {name}: min/max with itself gave {}", c, fmt_parts(m.to_parts())));
                    }
                }
            }
        }
    }
}

pub fn run(cfg: &Cfg, rep: &mut Rep) {
    let lat = gen::dur_lattice();
    let sh = rep.shard as usize;
    let n = NSHARDS as usize;
    for (i, &x) in lat.iter().enumerate() {
        if i % n != sh || cfg.fuzz {
            continue;
        }
        let a = mk(x);
        check_unit(rep, a);
        for &y in lat.iter() {
            check_pair(rep, a, mk(y));
        }
        for o in [0i128, 1, -1, x, -x, NPC, -NPC, NPC - 1, NS_D, 3 * NPC + 7, x / 2, x + NPC] {
            check_provenance(rep, x, o);
        }
    }
    // whole centuries, whole units and their neighbours through every route
    for k in -40i128..=40 {
        if (k + 40) as usize % n != sh || cfg.fuzz {
            continue;
        }
        for dlt in [0i128, 1, -1] {
            for o in [0i128, 1, NPC, -NPC, NPC - 1, k * NPC, (k + 1) * NPC + 5, -k * NPC] {
                check_provenance(rep, k * NPC + dlt, o);
            }
        }
    }
    if sh == 0 {
        for u in UNITS {
            for d in [-1i128, 0, 1] {
                check_unit(rep, mk(unit_ns(u) + d));
                check_unit(rep, mk(-unit_ns(u) + d));
            }
        }
    }
    let mut r = Rng::new(cfg.seed, 0x0300 + sh as u64);
    let nrand = cfg.budget(10_000_000);
    for k in 0..nrand {
        let k = cfg.k(k, &mut r);
        let ca = gen::rand_count(&mut r, &lat);
        let a = mk(ca);
        let (c, ns) = canon(ca);
        let cb = match k % 10 {
            0 => {
                // century fields differ by exactly one, mirrored ns
                let c2 = if r.bool() { c.saturating_add(1) } else { c.saturating_sub(1) };
                count_raw(c2, (NPC as u64).wrapping_sub(ns) % (NPC as u64 + 1))
            }
            1 => {
                let c2 = if r.bool() { c.saturating_add(1) } else { c.saturating_sub(1) };
                count_raw(c2, ns)
            }
            2 => -ca,
            3 => ca,
            4 => NPC - ca,
            5 => ca + r.range_i64(-2, 2) as i128,
            6 => -ca + r.range_i64(-2, 2) as i128,
            _ => gen::rand_count(&mut r, &lat),
        };
        let b = mk(cb);
        check_pair(rep, a, b);
        if k % 8 == 0 {
            check_provenance(rep, ca, cb);
        }
        if k % 16 == 0 {
            // triple: consistency of all three pairs with the model order implies transitivity
            let c3 = mk(gen::rand_count(&mut r, &lat));
            check_pair(rep, b, c3);
            check_pair(rep, a, c3);
            check_unit(rep, a);
        }
        if k % 512 == 0 {
            let len = 2 + r.below(199) as usize;
            let mut v = Vec::with_capacity(len);
            for j in 0..len {
                let x = if j > 0 && r.chance(1, 4) {
                    let p: Duration = v[r.below(j as u64) as usize];
                    let cp = count_d(p);
                    *r.pick(&[cp, -cp, cp + 1, cp - 1, NPC - cp])
                } else {
                    gen::rand_count(&mut r, &lat)
                };
                v.push(mk(x));
            }
            check_sort(rep, v);
        }
    }
}
