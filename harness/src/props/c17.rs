//! C17 Julian Date, Modified Julian Date and UNIX views are exact affine re-expressions.
use crate::core::*;
use crate::gen;
use crate::model::dur::*;
use crate::model::flt;
use crate::model::scale::*;
use crate::props::c05::ep;
use hifitime::{Duration, Epoch, TimeScale, Unit};

pub fn meta() -> Meta {
    Meta {
        rule: "events = for one epoch (all nine scales, within +-10000 y of 1900): the duration-valued views to_jde_{tai,utc,tt}_duration, to_mjd_tt_duration, to_tt_since_j2k, and ~45 float-valued views (to_{mjd,jde}_{tai,utc}_{days,seconds,(unit)}, to_tt_*, to_jde_tt_days, to_mjd_tt_days, to_tt_centuries_j2k, to_{tai,utc,gpst,qzsst,gst,bdt}_{seconds,days}, to_unix{,_seconds,_milliseconds,_days}); and build-then-read: from_mjd_{tai,utc}, from_jde_{tai,utc}, from_unix_{seconds,milliseconds,duration}, plus from_mjd_* / from_jde_* / from_{mjd,jde}_in_time_scale in TAI, UTC, TT and the four GNSS scales (value only: the epoch denotes (x - origin) days on the own calendar of that scale). Expected: model reading (M-SCALE) + constant (15020 d; +2400000.5 d; -3155716800 s; UNIX = UTC count - 2208988800 s) exactly for durations; floats within 8 ulp of max(|exact|, one second in that unit) decided exactly against the rational; build-then-read within 8 ulp + 1 ns of the input. ET/TDB epochs: 30 ns tolerance. TAI instants without UTC pre-image: don't-care. Generation: reading lattice incl. leap seconds + stratified random readings; finite JD/MJD/UNIX inputs over the same span incl. values near zero and half-integers. Non-trivial = negative reading, UTC view within 41 s of a leap second, |view| < 1 s, input half-integer; distinct = distinct (reading, scale) / input hashes among those. Round 10: MJD / JD / UNIX inputs on every day that ends with a leap second, the day before and after, six day fractions, through every constructor.",
        assumptions: &["'a few ulp' = 8"],
        mandatory: &["view/negative-reading", "view/utc-near-leap", "view/dyn-scale", "build/mjd", "build/jde", "build/unix", "build/half-integer", "build/in-time-scale"],
        thorough_scale: 40,
        exhaustive_part: "reading lattice x nine scales x all views",
    }
}

const MJD1900: i128 = 15_020 * NS_D;
const JD_OFF: i128 = 2_400_000 * NS_D + NS_D / 2;
const J2K_S: i128 = 3_155_716_800 * NS_S;
const UNIX0: i128 = 2_208_988_800 * NS_S;

pub fn check_views(rep: &mut Rep, w: &World, c: i128, s: TimeScale) {
    if !rep.tick() {
        return;
    }
    let t = w.to_tai(c, s);
    let tol: i128 = if is_dyn(s) { 30 } else { 0 };
    if tol > 0 {
        rep.class("view/dyn-scale");
    }
    let mut nt = false;
    if c < 0 {
        rep.class("view/negative-reading");
        nt = true;
    }
    let mut utc = if s == TimeScale::UTC { Some(c) } else { w.from_tai(t, TimeScale::UTC) };
    if tol > 0 && w.near_utc_discontinuity(t, 100) {
        utc = None; // ET/TDB tolerance makes the UTC reading ambiguous by a whole second here: don't care
    }
    if w.leap.iter().any(|&(ts, _)| (t - ts as i128 * NS_S).abs() < 80 * NS_S) {
        rep.class("view/utc-near-leap");
        nt = true;
    }
    if nt {
        rep.nt(h64(&[1, c as u64, (c >> 64) as u64, scale_idx(s)]));
    }
    let tt = t + 32_184_000_000;
    let e = ep(c, s);
    rep.sample("views", || format!("Epoch({}, {:?}): TAI {} TT {} UTC {:?}", c, s, t, tt, utc));
    let det = || format!("Epoch({}, {:?})", c, s);
    if tol == 0 {
        rep.log_event("views", || format!("\"c\":\"{}\",\"s\":\"{:?}\",\"tai\":\"{}\",\"utc\":\"{}\",\"jde_tai\":\"{}\",\"mjd_tt\":\"{}\",\"tt_j2k\":\"{}\",\"unix\":\"{}\"", c, s, t, utc.map(|u| u.to_string()).unwrap_or_else(|| "none".into()), t + MJD1900 + JD_OFF, tt + MJD1900, tt - J2K_S, utc.map(|u| (u - UNIX0).to_string()).unwrap_or_else(|| "none".into())));
    }
    // duration-valued
    match guard(|| (e.to_jde_tai_duration(), e.to_jde_utc_duration(), e.to_jde_tt_duration(), e.to_mjd_tt_duration(), e.to_tt_since_j2k(), e.to_tt_duration(), e.to_tai_duration(), e.to_utc_duration())) {
        Err(p) => rep.fail(&format!("dur-views/panic/{}", p.class()), None, || format!("{} duration views panicked: {}", det(), p.msg)),
        Ok((jt, ju, jtt, mtt, tj2k, ttd, taid, utcd)) => {
            let f12 = s != TimeScale::UTC && w.in_f12b_window(t);
            let dev_utc = w.from_tai_f12b(t, TimeScale::UTC);
            let one = |rep: &mut Rep, name: &str, got: Duration, want: Option<i128>, is_utc: bool| {
                if let Some(wv) = want {
                    let g = count_d(got);
                    if (g - wv).abs() > tol {
                        let fid = if is_utc && f12 && (g - (wv - utc.unwrap() + dev_utc)).abs() <= tol { Some("F12b-tai-to-utc-frame") } else { None };
                        rep.fail(&format!("dur-view/{name}"), fid, || format!("{}.{name}() = {} want {} (tol {}; off by {})", det(), g, wv, tol, g - wv));
                    }
                }
            };
            one(rep, "to_jde_tai_duration", jt, Some(t + MJD1900 + JD_OFF), false);
            one(rep, "to_jde_utc_duration", ju, utc.map(|u| u + MJD1900 + JD_OFF), true);
            one(rep, "to_jde_tt_duration", jtt, Some(tt + MJD1900 + JD_OFF), false);
            one(rep, "to_mjd_tt_duration", mtt, Some(tt + MJD1900), false);
            one(rep, "to_tt_since_j2k", tj2k, Some(tt - J2K_S), false);
            one(rep, "to_tt_duration", ttd, Some(tt), false);
            one(rep, "to_tai_duration", taid, Some(t), false);
            one(rep, "to_utc_duration", utcd, utc, true);
        }
    }
    if tol > 0 {
        return;
    }
    // float-valued: (name, value, exact count, unit ns)
    let r = guard(|| {
        let mut v: Vec<(&'static str, f64, u8, i128)> = vec![]; // kind: 0 tai,1 utc,2 tt, 3 gpst, 4 gst, 5 bdt; offset added below
        let d = NS_D;
        let sec = NS_S;
        v.push(("to_tai_seconds", e.to_tai_seconds(), 0, sec));
        v.push(("to_tai_days", e.to_tai_days(), 0, d));
        v.push(("to_tai(Hour)", e.to_tai(Unit::Hour), 0, NS_H));
        v.push(("to_utc_seconds", e.to_utc_seconds(), 1, sec));
        v.push(("to_utc_days", e.to_utc_days(), 1, d));
        v.push(("to_utc(Minute)", e.to_utc(Unit::Minute), 1, NS_MIN));
        v.push(("to_tt_seconds", e.to_tt_seconds(), 2, sec));
        v.push(("to_tt_days", e.to_tt_days(), 2, d));
        v.push(("to_gpst_seconds", e.to_gpst_seconds(), 3, sec));
        v.push(("to_gpst_days", e.to_gpst_days(), 3, d));
        v.push(("to_qzsst_seconds", e.to_qzsst_seconds(), 3, sec));
        v.push(("to_qzsst_days", e.to_qzsst_days(), 3, d));
        v.push(("to_gst_seconds", e.to_gst_seconds(), 4, sec));
        v.push(("to_gst_days", e.to_gst_days(), 4, d));
        v.push(("to_bdt_seconds", e.to_bdt_seconds(), 5, sec));
        v.push(("to_bdt_days", e.to_bdt_days(), 5, d));
        v.push(("to_mjd_tai_days", e.to_mjd_tai_days(), 10, d));
        v.push(("to_mjd_tai_seconds", e.to_mjd_tai_seconds(), 10, sec));
        v.push(("to_mjd_tai(Century)", e.to_mjd_tai(Unit::Century), 10, NPC));
        v.push(("to_mjd_utc_days", e.to_mjd_utc_days(), 11, d));
        v.push(("to_mjd_utc_seconds", e.to_mjd_utc_seconds(), 11, sec));
        v.push(("to_mjd_utc(Hour)", e.to_mjd_utc(Unit::Hour), 11, NS_H));
        v.push(("to_mjd_tt_days", e.to_mjd_tt_days(), 12, d));
        v.push(("to_jde_tai_days", e.to_jde_tai_days(), 20, d));
        v.push(("to_jde_tai_seconds", e.to_jde_tai_seconds(), 20, sec));
        v.push(("to_jde_tai(Week)", e.to_jde_tai(Unit::Week), 20, NS_W));
        v.push(("to_jde_utc_days", e.to_jde_utc_days(), 21, d));
        v.push(("to_jde_utc_seconds", e.to_jde_utc_seconds(), 21, sec));
        v.push(("to_jde_tt_days", e.to_jde_tt_days(), 22, d));
        v.push(("to_tt_centuries_j2k", e.to_tt_centuries_j2k(), 32, NPC));
        v.push(("to_unix_seconds", e.to_unix_seconds(), 41, sec));
        v.push(("to_unix_milliseconds", e.to_unix_milliseconds(), 41, NS_MS));
        v.push(("to_unix_days", e.to_unix_days(), 41, d));
        v.push(("to_unix(Microsecond)", e.to_unix(Unit::Microsecond), 41, NS_US));
        v
    });
    match r {
        Err(p) => rep.fail(&format!("float-views/panic/{}", p.class()), None, || format!("{} float views panicked: {} at {}", det(), p.msg, p.loc)),
        Ok(v) => {
            let f12 = s != TimeScale::UTC && w.in_f12b_window(t);
            for (name, x, kind, unit) in v {
                let base = match kind % 10 {
                    0 => Some(t),
                    1 => utc,
                    2 => Some(tt),
                    3 => Some(t - zero_tai_ns(TimeScale::GPST)),
                    4 => Some(t - zero_tai_ns(TimeScale::GST)),
                    _ => Some(t - zero_tai_ns(TimeScale::BDT)),
                };
                let base = match base {
                    Some(b) => b,
                    None => continue,
                };
                let exact = base
                    + match kind / 10 {
                        0 => 0,
                        1 => MJD1900,
                        2 => MJD1900 + JD_OFF,
                        3 => -J2K_S,
                        _ => -UNIX0,
                    };
                let one_sec = 1e9 / unit as f64;
                let ur = flt::ulp((exact as f64 / unit as f64).abs().max(one_sec));
                rep.note_max("float_view_max_err_ulps(approx)", flt::approx_err_ulps(x, exact, unit, ur));
                if !flt::within_ulps(x, exact, unit, ur, 8.0) {
                    let mut fid = None;
                    if kind % 10 == 1 && f12 {
                        let dev = exact - utc.unwrap() + w.from_tai_f12b(t, TimeScale::UTC);
                        let ur2 = flt::ulp((dev as f64 / unit as f64).abs().max(one_sec));
                        if flt::within_ulps(x, dev, unit, ur2, 8.0) {
                            fid = Some("F12b-tai-to-utc-frame");
                        }
                    }
                    rep.fail(&format!("float-view/{name}"), fid, || format!("{}.{name} = {} ; exact {}/{} = {:e}", det(), fmt_f64(x), exact, unit, exact as f64 / unit as f64));
                }
            }
        }
    }
}

/// build an epoch from a float view and read the same view back
pub fn check_build(rep: &mut Rep, kind: u8, x: f64) {
    if !rep.tick() {
        return;
    }
    let (cls, name) = match kind {
        0 => ("build/mjd", "mjd_tai"),
        1 => ("build/mjd", "mjd_utc"),
        2 => ("build/jde", "jde_tai"),
        3 => ("build/jde", "jde_utc"),
        4 => ("build/unix", "unix_seconds"),
        5 => ("build/unix", "unix_milliseconds"),
        _ => ("build/unix", "unix_duration"),
    };
    rep.class(cls);
    if (x * 2.0).fract() == 0.0 && x.fract() != 0.0 {
        rep.class("build/half-integer");
    }
    rep.nt(h64(&[2, kind as u64, x.to_bits()]));
    rep.sample(cls, || format!("from_{name}({})", fmt_f64(x)));
    let r = guard(|| match kind {
        0 => {
            let e = Epoch::from_mjd_tai(x);
            (e, e.to_mjd_tai_days(), TimeScale::TAI)
        }
        1 => {
            let e = Epoch::from_mjd_utc(x);
            (e, e.to_mjd_utc_days(), TimeScale::UTC)
        }
        2 => {
            let e = Epoch::from_jde_tai(x);
            (e, e.to_jde_tai_days(), TimeScale::TAI)
        }
        3 => {
            let e = Epoch::from_jde_utc(x);
            (e, e.to_jde_utc_days(), TimeScale::UTC)
        }
        4 => {
            let e = Epoch::from_unix_seconds(x);
            (e, e.to_unix_seconds(), TimeScale::UTC)
        }
        5 => {
            let e = Epoch::from_unix_milliseconds(x);
            (e, e.to_unix_milliseconds(), TimeScale::UTC)
        }
        _ => {
            let e = Epoch::from_unix_duration(x * Unit::Second);
            (e, e.to_unix_seconds(), TimeScale::UTC)
        }
    });
    match r {
        Err(p) => rep.fail(&format!("build/panic/{}", p.class()), None, || format!("from_{name}({}) panicked: {} at {}", fmt_f64(x), p.msg, p.loc)),
        Ok((e, back, ts)) => {
            if e.time_scale != ts {
                rep.fail("build/scale", None, || format!("from_{name}({}) tagged {:?}", x, e.time_scale));
            }
            let unit = match kind {
                0..=3 => NS_D,
                5 => NS_MS,
                _ => NS_S,
            } as f64;
            let one_sec = 1e9 / unit;
            let off_days: f64 = match kind {
                0 | 1 => 15020.0,
                2 | 3 => 15020.0 + 2_400_000.5,
                _ => 0.0,
            };
            // float precision at the largest magnitude the value takes on the way (input or input minus the constant)
            let mag = x.abs().max((x - off_days).abs()).max(one_sec);
            let tol = 8.0 * flt::ulp(mag) + 1.0 / unit;
            if !((back - x).abs() <= tol) {
                rep.fail(&format!("build/read-back/{name}"), None, || format!("from_{name}({}) reads back {} (diff {:e}, tol {:e})", fmt_f64(x), fmt_f64(back), back - x, tol));
            }
            // the epoch itself denotes (x - constant) in that unit, to float precision
            let want = if kind <= 3 { ((x - off_days) * unit) as i128 } else { UNIX0 + (x * unit) as i128 };
            let tol_ns = (tol * unit).ceil() as i128 + 2;
            if (count_d(e.duration) - want).abs() > tol_ns {
                rep.fail(&format!("build/value/{name}"), None, || format!("from_{name}({}) = reading {} want {} +- {} ns", fmt_f64(x), count_d(e.duration), want, tol_ns));
            }
        }
    }
}

/// MJD / JDE constructors in every time scale: the epoch denotes (x - origin) days on that scale's own calendar
pub fn check_build_in_scale(rep: &mut Rep, jde: bool, x: f64, s: TimeScale) {
    if !rep.tick() {
        return;
    }
    rep.class(if jde { "build/jde" } else { "build/mjd" });
    rep.class("build/in-time-scale");
    rep.nt(h64(&[3, jde as u64, x.to_bits(), scale_idx(s)]));
    let origin = if jde { 15020.0 + 2_400_000.5 } else { 15020.0 };
    let unit = NS_D as f64;
    let want = ((x - origin) * unit) as i128 - greg_zero_ns(s);
    let tol_ns = ((8.0 * flt::ulp(x.abs().max((x - origin).abs()).max(1e9 / unit)) + 1.0 / unit) * unit).ceil() as i128 + 2;
    let nm = if jde { "jde" } else { "mjd" };
    rep.sample("build/in-time-scale", || format!("from_{nm}_in_time_scale({}, {:?}) => reading {} +- {}", fmt_f64(x), s, want, tol_ns));
    let r = guard(|| {
        let generic = if jde { Epoch::from_jde_in_time_scale(x, s) } else { Epoch::from_mjd_in_time_scale(x, s) };
        let named = match (jde, s) {
            (false, TimeScale::TAI) => Some(Epoch::from_mjd_tai(x)),
            (false, TimeScale::UTC) => Some(Epoch::from_mjd_utc(x)),
            (false, TimeScale::GPST) => Some(Epoch::from_mjd_gpst(x)),
            (false, TimeScale::QZSST) => Some(Epoch::from_mjd_qzsst(x)),
            (false, TimeScale::GST) => Some(Epoch::from_mjd_gst(x)),
            (false, TimeScale::BDT) => Some(Epoch::from_mjd_bdt(x)),
            (true, TimeScale::TAI) => Some(Epoch::from_jde_tai(x)),
            (true, TimeScale::UTC) => Some(Epoch::from_jde_utc(x)),
            (true, TimeScale::GPST) => Some(Epoch::from_jde_gpst(x)),
            (true, TimeScale::QZSST) => Some(Epoch::from_jde_qzsst(x)),
            (true, TimeScale::GST) => Some(Epoch::from_jde_gst(x)),
            (true, TimeScale::BDT) => Some(Epoch::from_jde_bdt(x)),
            _ => None,
        };
        (generic, named)
    });
    match r {
        Err(p) => rep.fail(&format!("build-in-scale/panic/{}", p.class()), None, || format!("from_{nm}_in_time_scale({}, {:?}) panicked: {}", fmt_f64(x), s, p.msg)),
        Ok((g, named)) => {
            for (name, e) in [("generic", Some(g)), ("named", named)] {
                if let Some(e) = e {
                    if e.time_scale != s || (count_d(e.duration) - want).abs() > tol_ns {
                        rep.fail(&format!("build-in-scale/value/{nm}"), None, || format!("{name} from_{nm}({}, {:?}) = ({}, {:?}) want {} +- {} [off by {} ns]", fmt_f64(x), s, count_d(e.duration), e.time_scale, want, tol_ns, count_d(e.duration) - want));
                    }
                }
            }
        }
    }
}

/// JDE constructors of the two dynamical scales: the epoch denotes (x - 2451545.0) days past J2000 noon in ET / TDB,
/// and reading the same view back returns x to float precision. The time-scale tag of the result is not fixed by the
/// statement (the instant is compared through the model, 30 ns of C07 tolerance included).
pub fn check_build_dyn(rep: &mut Rep, w: &World, x: f64, dy: TimeScale) {
    if !rep.tick() {
        return;
    }
    rep.class("build/jde");
    rep.class("build/jde-dynamical");
    rep.nt(h64(&[5, x.to_bits(), scale_idx(dy)]));
    let unit = NS_D as f64;
    let want = ((x - 2_451_545.0) * unit) as i128; // reading in dy
    let nm = if dy == TimeScale::ET { "et" } else { "tdb" };
    rep.sample("build/jde-dynamical", || format!("from_jde_{nm}({}) => {:?} reading {}", fmt_f64(x), dy, want));
    match guard(|| {
        let e = if dy == TimeScale::ET { Epoch::from_jde_et(x) } else { Epoch::from_jde_tdb(x) };
        let back = if dy == TimeScale::ET { e.to_jde_et_days() } else { e.to_jde_tdb_days() };
        (e, back)
    }) {
        Err(p) => rep.fail(&format!("build-dyn/panic/{}", p.class()), None, || format!("from_jde_{nm}({}) panicked: {} at {}", fmt_f64(x), p.msg, p.loc)),
        Ok((e, back)) => {
            let mag = x.abs().max((x - 2_451_545.0).abs()).max(1e9 / unit);
            let tol = 8.0 * flt::ulp(mag) + 31.0 / unit;
            if !((back - x).abs() <= tol) {
                rep.fail(&format!("build/read-back/jde_{nm}"), None, || format!("from_jde_{nm}({}) reads back {} (diff {:e} days = {:.0} ns, tol {:e})", fmt_f64(x), fmt_f64(back), back - x, (back - x) * unit, tol));
            }
            // the instant: TAI count of the epoch vs TAI count of the denoted reading
            let t_got = w.to_tai(count_d(e.duration), e.time_scale);
            let t_want = w.to_tai(want, dy);
            let tol_ns = (tol * unit).ceil() as i128 + 62;
            if (t_got - t_want).abs() > tol_ns {
                rep.fail(&format!("build/value/jde_{nm}"), None, || format!("from_jde_{nm}({}) = ({}, {:?}) denotes TAI {} ; (x - 2451545.0) d past J2000 {:?} is TAI {} [off by {} ns, tol {}]", fmt_f64(x), count_d(e.duration), e.time_scale, t_got, dy, t_want, t_got - t_want, tol_ns));
            }
        }
    }
}

/// zero-like and tiny finite inputs (inside the span: JD 0 is -4712) for every float constructor
pub const SPECIAL_INPUTS: [f64; 8] = [0.0, -0.0, f64::MIN_POSITIVE, -f64::MIN_POSITIVE, 1e-310, -1e-310, 5e-324, 1e-30];

pub fn run(cfg: &Cfg, rep: &mut Rep) {
    let sh = rep.shard as usize;
    let n = NSHARDS as usize;
    let w = World::new(crate::model::dynm::NAIF);
    let lats: Vec<Vec<i128>> = SCALES.iter().map(|s| gen::reading_lattice(*s, &w.leap)).collect();
    let mut i = 0usize;
    for (si, s) in SCALES.iter().enumerate() {
        if cfg.fuzz {
            break;
        }
        for &c in &lats[si] {
            i += 1;
            if i % n == sh {
                check_views(rep, &w, c, *s);
            }
        }
    }
    for kind in 0..7u8 {
        for x in [0.0, 0.5, 1.0, -0.5, 15020.0, 15020.5, 51544.5, 2415020.5, 2451545.0, 2400000.5, 1e9, 1.5e9, -1e9, 2208988800.0, 1e-9, 86400.0, 40587.0, 2440587.5] {
            i += 1;
            if kind <= 3 && f64::abs(x) > 4e6 {
                continue; // outside +-10000 y for day-valued inputs
            }
            if i % n == sh {
                check_build(rep, kind, x);
            }
        }
    }
    // inputs on the calendar days that end with a leap second, the day after and the day before, at several day fractions:
    // a Julian date counts 86 400 s to the day in every scale (the 61st second has no Julian date of its own)
    for &(ts, _) in w.leap.iter() {
        if cfg.fuzz {
            break;
        }
        for dd in [-1i64, 0, 1] {
            for fr in [0.0f64, 0.25, 0.5, 0.75, 0.999_652_777, 0.1] {
                i += 1;
                if i % n != sh {
                    continue;
                }
                rep.class("build/on-a-leap-second-day");
                let mjd = 15_020.0 + (ts / 86_400 + dd - 1) as f64 + fr;
                check_build(rep, 0, mjd);
                check_build(rep, 1, mjd);
                check_build(rep, 2, mjd + 2_400_000.5);
                check_build(rep, 3, mjd + 2_400_000.5);
                let unix = (mjd - 40_587.0) * 86_400.0;
                check_build(rep, 4, unix);
                check_build(rep, 5, unix * 1000.0);
                check_build(rep, 6, unix);
                for s2 in [TimeScale::TAI, TimeScale::UTC, TimeScale::TT, TimeScale::GPST, TimeScale::BDT] {
                    check_build_in_scale(rep, true, mjd + 2_400_000.5, s2);
                    check_build_in_scale(rep, false, mjd, s2);
                }
            }
        }
    }
    for x in SPECIAL_INPUTS {
        i += 1;
        if i % n != sh || cfg.fuzz {
            continue;
        }
        rep.class("build/zero-like-input");
        for kind in 0..7u8 {
            if kind <= 1 || kind >= 4 || x == 0.0 || x.abs() < 1.0 {
                check_build(rep, kind, x);
            }
        }
        for s2 in [TimeScale::TAI, TimeScale::UTC, TimeScale::TT, TimeScale::GPST, TimeScale::QZSST, TimeScale::GST, TimeScale::BDT] {
            check_build_in_scale(rep, true, x, s2);
            check_build_in_scale(rep, false, x, s2);
        }
        check_build_dyn(rep, &w, x, TimeScale::ET);
        check_build_dyn(rep, &w, x, TimeScale::TDB);
    }
    for x in [2_451_545.0, 2_451_545.25, 2_451_544.5, 2_415_020.5, 2_460_000.5, 2_451_635.0, 2_451_727.0, 1e6, 0.5] {
        i += 1;
        if i % n == sh {
            check_build_dyn(rep, &w, x, TimeScale::ET);
            check_build_dyn(rep, &w, x, TimeScale::TDB);
        }
    }
    let mut r = Rng::new(cfg.seed, 0x1700 + sh as u64);
    let nrand = cfg.budget(2_500_000);
    for k in 0..nrand {
        let k = cfg.k(k, &mut r);
        let si = r.below(9) as usize;
        let s = SCALES[si];
        let c = match r.below(5) {
            0 => {
                let (ts, o) = *r.pick(&w.leap);
                let t = ts as i128 * NS_S + r.range_i64(-41, 41 + o) as i128 * NS_S + *r.pick(&[0i128, 1, -1, 500_000_000]);
                match w.from_tai(t, s) {
                    Some(x) => x,
                    None => continue,
                }
            }
            1 => gen::rand_count_within(&mut r, 100 * NS_S) - if r.bool() { crate::model::scale::greg_zero_ns(s) * 0 } else { 0 },
            _ => gen::rand_reading(&mut r, s, &lats[si]),
        };
        check_views(rep, &w, c, s);
        if k % 2 == 0 {
            let kind = r.below(7) as u8;
            // finite inputs within +-10000 y of 1900
            let span_days = 3_652_500.0;
            let x = match kind {
                0 | 1 => 15020.0 + (r.f64_unit() - 0.5) * 2.0 * span_days,
                2 | 3 => 2415020.5 + (r.f64_unit() - 0.5) * 2.0 * span_days,
                5 => (r.f64_unit() - 0.5) * 2.0 * span_days * 86400.0 * 1000.0,
                _ => (r.f64_unit() - 0.5) * 2.0 * span_days * 86400.0,
            };
            let x = match r.below(5) {
                0 => x.round(),
                1 => x.round() + 0.5,
                2 => (x / 1e6).round(),
                _ => x,
            };
            check_build(rep, kind, x);
            if kind <= 3 {
                let s2 = *r.pick(&[TimeScale::TAI, TimeScale::UTC, TimeScale::TT, TimeScale::GPST, TimeScale::QZSST, TimeScale::GST, TimeScale::BDT]);
                check_build_in_scale(rep, kind >= 2, x, s2);
            }
            if kind == 2 || kind == 3 {
                check_build_dyn(rep, &w, x, if kind == 2 { TimeScale::ET } else { TimeScale::TDB });
            }
        }
    }
}
