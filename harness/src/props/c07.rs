//! C07 ET and TDB match the NAIF and ESA closed forms and round-trip within nanoseconds.
use crate::core::*;
use crate::gen;
use crate::model::dur::*;
use crate::model::dynm;
use crate::model::flt;
use crate::model::scale::*;
use crate::props::c05::ep;
use hifitime::{Epoch, TimeScale};

pub fn meta() -> Meta {
    Meta {
        rule: "events = for one TAI instant within +-10000 y of J2000 expressed in a uniform scale: to_time_scale(ET|TDB), to_et_duration / to_tdb_duration, to_et_seconds / to_tdb_seconds, the way back to the uniform scale, ET/TDB -> TAI -> ET/TDB, from_et_duration / from_tdb_duration, to_jde_et_duration / to_jde_tdb_duration, and order preservation on pairs (t, t+delta), delta in [101 ns, 10 us]. Expected: |observed - closed form| <= 30 ns in both directions (closed forms of the statement, constants of the NAIF kernel, sums in i128, periodic term never by cancellation), round trips <= 20 ns, order preserved, JDE view == duration view + 2451545 days exactly, float seconds within 8 ulp of the duration view. Generation: uniform / log-distance from J2000 / dense phase sweep over one anomalistic year / reading lattice. Non-trivial = every event (each needs the transcendental model); distinct = distinct (instant, scale) hashes. Round 6: (cross-dyn) an epoch held in ET read in TDB and vice versa, and in its own scale, through to_time_scale / to_duration_in_time_scale / named accessor (60 ns / 20 ns); (jde-exact) from_jde_et / from_jde_tdb of 2451545 + k/2 for which every float product is exact must read k half-days within 30 ns.",
        assumptions: &["f64 sin of the host libm is accurate to < 1e-12 s in the periodic term", "which time argument (TAI-based or ET-based seconds past J2000) feeds the mean anomaly is not fixed by the statement; the <= 11 ns ambiguity is inside the 30 ns tolerance"],
        mandatory: &["to-dyn/ET", "to-dyn/TDB", "from-dyn/ET", "from-dyn/TDB", "pair/order", "phase-sweep", "far/beyond-5000y", "before-j2000"],
        thorough_scale: 50,
        exhaustive_part: "every nanosecond of +-200 us around the zero of the ET and of the TDB reading, both directions; phase sweep of one anomalistic year at 1/2000 year steps x six uniform scales x {ET,TDB}",
    }
}

const JDE_J2000_NS: i128 = 2_451_545 * NS_D;

pub fn check(rep: &mut Rep, w: &World, t: i128, su: TimeScale, dy: TimeScale) {
    if !rep.tick() {
        return;
    }
    let d_u = t - zero_tai_ns(su);
    let e = ep(d_u, su);
    let want = w.from_tai(t, dy).unwrap();
    rep.class(if dy == TimeScale::ET { "to-dyn/ET" } else { "to-dyn/TDB" });
    if (t - dynm::j2000_ns()).abs() > 50 * NPC {
        rep.class("far/beyond-5000y");
    }
    if t < dynm::j2000_ns() {
        rep.class("before-j2000");
    }
    rep.nt(h64(&[t as u64, (t >> 64) as u64, scale_idx(su), scale_idx(dy)]));
    rep.log_event("todyn", || format!("\"t\":\"{}\",\"dy\":\"{:?}\",\"want\":\"{}\"", t, dy, want));
    rep.sample("to-dyn", || format!("TAI count {} given in {:?} -> {:?}: closed form reading {}", t, su, dy, want));
    let det = || format!("Epoch({}, {:?}).to_time_scale({:?})", d_u, su, dy);
    match guard(|| {
        let r = e.to_time_scale(dy);
        let (dur, secs, jde) = if dy == TimeScale::ET { (e.to_et_duration(), e.to_et_seconds(), e.to_jde_et_duration()) } else { (e.to_tdb_duration(), e.to_tdb_seconds(), e.to_jde_tdb_duration()) };
        let back = r.to_time_scale(su);
        (r, dur, secs, jde, back)
    }) {
        Err(p) => rep.fail(&format!("to-dyn/panic/{}", p.class()), None, || format!("{} panicked: {} at {}", det(), p.msg, p.loc)),
        Ok((r, dur, secs, jde, back)) => {
            let g = count_d(r.duration);
            rep.note_max("max_abs_dev_from_closed_form_ns", (g - want).abs() as f64);
            if r.time_scale != dy {
                rep.fail("to-dyn/scale-tag", None, || format!("{} tagged {:?}", det(), r.time_scale));
            }
            if (g - want).abs() > 30 {
                rep.fail("to-dyn/value", None, || format!("{} = {} ; closed form {} ; off by {} ns", det(), g, want, g - want));
            }
            if count_d(dur) != g {
                rep.fail("to-dyn/named-accessor", None, || format!("{}: to_*_duration {} vs to_time_scale {}", det(), count_d(dur), g));
            }
            if !flt::within_ulps(secs, g, NS_S, flt::ulp((g as f64 / 1e9).abs().max(1.0)), 8.0) {
                rep.fail("to-dyn/seconds-view", None, || format!("{}: seconds view {} vs duration {}", det(), fmt_f64(secs), g));
            }
            // float views of the same reading: days / centuries since J2000, JDE days
            if let Ok(v) = guard(|| if dy == TimeScale::ET { (e.to_et_days_since_j2000(), e.to_et_centuries_since_j2000(), e.to_jde_et_days(), e.to_jde_et(hifitime::Unit::Second)) } else { (e.to_tdb_days_since_j2000(), e.to_tdb_centuries_since_j2000(), e.to_jde_tdb_days(), e.to_jde_tdb_duration().to_seconds()) }) {
                let views = [("days_since_j2000", v.0, g, NS_D), ("centuries_since_j2000", v.1, g, NPC), ("jde_days", v.2, g + JDE_J2000_NS, NS_D), ("jde_seconds", v.3, g + JDE_J2000_NS, NS_S)];
                for (name, x, num, den) in views {
                    let ur = flt::ulp((num as f64 / den as f64).abs().max(1e9 / den as f64));
                    if !flt::within_ulps(x, num, den, ur, 8.0) {
                        rep.fail(&format!("to-dyn/float-view/{name}"), None, || format!("{}: {name} = {} vs exact {}/{}", det(), fmt_f64(x), num, den));
                    }
                }
            }
            if count_d(jde) != g + JDE_J2000_NS {
                rep.fail("to-dyn/jde-view", None, || format!("{}: JDE duration {} want {} + 2451545 d = {}", det(), count_d(jde), g, g + JDE_J2000_NS));
            }
            let b = count_d(back.duration);
            rep.note_max("max_round_trip_dev_ns", (b - d_u).abs() as f64);
            if back.time_scale != su || (b - d_u).abs() > 20 {
                rep.fail("round-trip/uniform-dyn-uniform", None, || format!("{} and back = ({}, {:?}) ; off by {} ns", det(), b, back.time_scale, b - d_u));
            }
        }
    }
}

pub fn check_from(rep: &mut Rep, w: &World, r_c: i128, dy: TimeScale, su: TimeScale) {
    if !rep.tick() {
        return;
    }
    rep.class(if dy == TimeScale::ET { "from-dyn/ET" } else { "from-dyn/TDB" });
    rep.nt(h64(&[9, r_c as u64, (r_c >> 64) as u64, scale_idx(su), scale_idx(dy)]));
    let t = w.to_tai(r_c, dy);
    let want = t - zero_tai_ns(su);
    let det = || format!("Epoch({}, {:?}).to_time_scale({:?})", r_c, dy, su);
    rep.log_event("fromdyn", || format!("\"r\":\"{}\",\"dy\":\"{:?}\",\"want_tai\":\"{}\"", r_c, dy, t));
    rep.sample("from-dyn", || format!("{:?} reading {} -> {:?}: closed form {}", dy, r_c, su, want));
    match guard(|| {
        let e = if dy == TimeScale::ET { Epoch::from_et_duration(mk(r_c)) } else { Epoch::from_tdb_duration(mk(r_c)) };
        let g = e.to_time_scale(su);
        let tai = e.to_time_scale(TimeScale::TAI);
        let back = tai.to_time_scale(dy);
        (e, g, back)
    }) {
        Err(p) => rep.fail(&format!("from-dyn/panic/{}", p.class()), None, || format!("{} panicked: {}", det(), p.msg)),
        Ok((e, g, back)) => {
            if e.time_scale != dy || count_d(e.duration) != r_c {
                rep.fail("from-dyn/ctor", None, || format!("from_{:?}_duration({}) = ({}, {:?})", dy, r_c, count_d(e.duration), e.time_scale));
            }
            // the float-seconds constructor of the same scale: a whole number of seconds below 2^53 ns is exact (C18)
            let whole = (r_c / NS_S) * NS_S;
            if whole.abs() < (1i128 << 53) {
                let x = (whole / NS_S) as f64;
                match guard(|| if dy == TimeScale::ET { Epoch::from_et_seconds(x) } else { Epoch::from_tdb_seconds(x) }) {
                    Err(p) => rep.fail(&format!("from-dyn/panic/{}", p.class()), None, || format!("from_{:?}_seconds({x}) panicked: {}", dy, p.msg)),
                    Ok(fs) => {
                        if fs.time_scale != dy || count_d(fs.duration) != whole {
                            rep.fail("from-dyn/ctor-seconds", None, || format!("from_{:?}_seconds({x}) = ({}, {:?}) want {}", dy, count_d(fs.duration), fs.time_scale, whole));
                        }
                    }
                }
            }
            let gc = count_d(g.duration);
            rep.note_max("max_abs_dev_from_closed_form_ns", (gc - want).abs() as f64);
            if g.time_scale != su || (gc - want).abs() > 30 {
                rep.fail("from-dyn/value", None, || format!("{} = ({}, {:?}) ; closed form {} ; off by {} ns", det(), gc, g.time_scale, want, gc - want));
            }
            let b = count_d(back.duration);
            rep.note_max("max_round_trip_dev_ns", (b - r_c).abs() as f64);
            if back.time_scale != dy || (b - r_c).abs() > 20 {
                rep.fail("round-trip/dyn-tai-dyn", None, || format!("({}, {:?}) -> TAI -> {:?} = {} ; off by {} ns", r_c, dy, dy, b, b - r_c));
            }
        }
    }
}

/// An epoch held in one dynamical scale read in the *other* one and in its own, through every entry point (the two scales
/// share J2000 as their zero, which is exactly what makes a "same reference, same count" short-cut look right): the
/// reading in the other scale is the closed form of that scale applied to the instant the closed form of the held scale
/// denotes (30 ns each way, so 60 ns), the reading in its own scale comes back within the round-trip tolerance.
pub fn check_cross_dyn(rep: &mut Rep, w: &World, r_c: i128, dy: TimeScale) {
    if !rep.tick() {
        return;
    }
    let od = if dy == TimeScale::ET { TimeScale::TDB } else { TimeScale::ET };
    rep.class(if dy == TimeScale::ET { "cross-dyn/ET-held" } else { "cross-dyn/TDB-held" });
    rep.nt(h64(&[11, r_c as u64, (r_c >> 64) as u64, scale_idx(dy)]));
    let want_other = w.from_tai(w.to_tai(r_c, dy), od).unwrap();
    let e = ep(r_c, dy);
    match guard(|| {
        let named = |x: &Epoch, s: TimeScale| if s == TimeScale::ET { x.to_et_duration() } else { x.to_tdb_duration() };
        (e.to_time_scale(od), e.to_duration_in_time_scale(od), named(&e, od), e.to_time_scale(dy), e.to_duration_in_time_scale(dy), named(&e, dy))
    }) {
        Err(p) => rep.fail(&format!("cross-dyn/panic/{}", p.class()), None, || format!("({}, {:?}) read in {:?} panicked: {} at {}", r_c, dy, od, p.msg, p.loc)),
        Ok((o1, o2, o3, s1, s2, s3)) => {
            if o1.time_scale != od || s1.time_scale != dy {
                rep.fail("cross-dyn/scale-tag", None, || format!("({}, {:?}).to_time_scale({:?}) tagged {:?}; to own scale tagged {:?}", r_c, dy, od, o1.time_scale, s1.time_scale));
            }
            for (name, got) in [("to_time_scale", o1.duration), ("to_duration_in_time_scale", o2), ("named accessor", o3)] {
                let g = count_d(got);
                rep.note_max("max_cross_dyn_dev_ns", (g - want_other).abs() as f64);
                if (g - want_other).abs() > 60 {
                    rep.fail("cross-dyn/value", None, || format!("({}, {:?}) read in {:?} through {name} = {} ; closed forms give {} ; off by {} ns", r_c, dy, od, g, want_other, g - want_other));
                }
            }
            for (name, got) in [("to_time_scale", s1.duration), ("to_duration_in_time_scale", s2), ("named accessor", s3)] {
                let g = count_d(got);
                if (g - r_c).abs() > 20 {
                    rep.fail("cross-dyn/own-scale", None, || format!("({}, {:?}) read in its own scale through {name} = {} ; off by {} ns", r_c, dy, g, g - r_c));
                }
            }
        }
    }
}

/// "Both scales count from J2000 = 2000-01-01 12:00:00 in the scale itself": the epoch built from the Julian date
/// 2451545 + k/2 in ET / TDB reads k half-days in that scale. Only inputs for which every float product on the way is
/// exact are judged (then the only inexact step is dynamical -> TAI -> dynamical, which the statement bounds).
pub fn check_jde_exact(rep: &mut Rep, k: i64, dy: TimeScale) {
    let half = NS_D / 2;
    let m = 2 * 2_451_545i128 + k as i128; // Julian date in half-days
    let exact = |v: i128| (v as f64) as i128 == v && v.abs() < (1i128 << 100);
    if !exact(m * half) || !exact(k as i128 * half) || m.abs() >= (1 << 52) {
        return;
    }
    if !rep.tick() {
        return;
    }
    rep.class("jde-exact-input");
    let x = m as f64 / 2.0;
    let want = k as i128 * half;
    let nm = if dy == TimeScale::ET { "et" } else { "tdb" };
    match guard(|| {
        let e = if dy == TimeScale::ET { Epoch::from_jde_et(x) } else { Epoch::from_jde_tdb(x) };
        let (d, j) = if dy == TimeScale::ET { (e.to_et_duration(), e.to_jde_et_duration()) } else { (e.to_tdb_duration(), e.to_jde_tdb_duration()) };
        (d, j, e.to_time_scale(dy))
    }) {
        Err(p) => rep.fail(&format!("jde-exact/panic/{}", p.class()), None, || format!("from_jde_{nm}({x}) panicked: {} at {}", p.msg, p.loc)),
        Ok((d, j, r)) => {
            let g = count_d(d);
            rep.note_max("max_jde_exact_dev_ns", (g - want).abs() as f64);
            if (g - want).abs() > 30 || (count_d(r.duration) - want).abs() > 30 || (count_d(j) - want - JDE_J2000_NS).abs() > 30 {
                rep.fail(&format!("jde-exact/value/{nm}"), None, || format!("from_jde_{nm}({x}) reads {} ns in {:?} (to_time_scale {}, JDE view {} - 2451545 d) ; the date denotes {} ns past J2000 ; off by {} ns", g, dy, count_d(r.duration), count_d(j), want, g - want));
            }
        }
    }
}

pub fn check_order(rep: &mut Rep, t: i128, delta: i128, su: TimeScale, dy: TimeScale) {
    if !rep.tick() {
        return;
    }
    rep.class("pair/order");
    let a = ep(t - zero_tai_ns(su), su);
    let b = ep(t + delta - zero_tai_ns(su), su);
    match guard(|| {
        let (x, y) = (a.to_time_scale(dy), b.to_time_scale(dy));
        // and the reverse direction on readings delta apart
        let (p, q) = (ep(t - dynm::j2000_ns(), dy), ep(t - dynm::j2000_ns() + delta, dy));
        (count_d(x.duration), count_d(y.duration), count_d(p.to_time_scale(su).duration), count_d(q.to_time_scale(su).duration))
    }) {
        Err(_) => {}
        Ok((x, y, p, q)) => {
            if !(x < y) {
                rep.fail("order/to-dyn", None, || format!("TAI {} and +{} ns in {:?} -> {:?}: {} !< {}", t, delta, su, dy, x, y));
            }
            if !(p < q) {
                rep.fail("order/from-dyn", None, || format!("{:?} readings {} ns apart -> {:?}: {} !< {}", dy, delta, su, p, q));
            }
        }
    }
}

pub fn run(cfg: &Cfg, rep: &mut Rep) {
    let sh = rep.shard as usize;
    let n = NSHARDS as usize;
    let w = World::new(dynm::NAIF);
    // the kernel shipped with the sources must carry the constants of the statement
    if sh == 0 && rep.tick() {
        match crate::model::leap::parse_naif(&cfg.repo_dir.join("naif0012.txt")) {
            Ok(k) => {
                if k.k != dynm::NAIF.k || k.eb != dynm::NAIF.eb || k.m0 != dynm::NAIF.m0 || k.m1 != dynm::NAIF.m1 || k.delta_t_a != 32.184 {
                    rep.fail("kernel/constants-differ", None, || format!("naif0012.txt K={} EB={} M=({}, {}) DELTA_T_A={}", k.k, k.eb, k.m0, k.m1, k.delta_t_a));
                }
            }
            Err(e) => rep.fail("kernel/unreadable", None, || e),
        }
    }
    let j2k = dynm::j2000_ns();
    let span = 100 * NPC;
    let dyns = [TimeScale::ET, TimeScale::TDB];
    // phase sweep over one anomalistic year (365.2596 d) around several base years
    let mut i = 0usize;
    let year = 365_259_600_000_000i128 * 86_400 / 1000; // 365.2596 d in ns
    for base_y in [-9000i128, -100, 0, 24, 1000, 9000] {
        if cfg.fuzz {
            break;
        }
        for k in 0..2000i128 {
            i += 1;
            if i % n != sh {
                continue;
            }
            rep.class("phase-sweep");
            let t = j2k + base_y * 36525 * NS_D / 100 + k * year / 2000 + (k * 7919) % 1000;
            let su = UNIFORM[(k % 6) as usize];
            for dy in dyns {
                check(rep, &w, t, su, dy);
                check_from(rep, &w, t - j2k, dy, su);
                check_cross_dyn(rep, &w, t - j2k, dy);
                if base_y.abs() <= 100 {
                    check_jde_exact(rep, ((t - j2k) / (NS_D / 2)) as i64, dy);
                }
            }
        }
    }
    // every nanosecond of the 400 us around the zero of each dynamical reading (the instant where TT-past-J2000 and the
    // ET / TDB reading change sign, 70 us apart): sign handling and the x == -x equality of durations live here
    for dy in dyns {
        if cfg.fuzz {
            break;
        }
        let t0 = w.to_tai(0, dy);
        for x in -200_000i128..=200_000 {
            i += 1;
            if i % n != sh {
                continue;
            }
            rep.class("zero-crossing-scan");
            let su = UNIFORM[(x.rem_euclid(6)) as usize];
            check(rep, &w, t0 + x, su, dy);
            check_from(rep, &w, x, dy, su);
        }
    }
    // binary and decimal thresholds of the dynamical reading itself and of TAI-past-J2000 (neither is a threshold of the
    // count the epoch is held with): +-40 s around each, every second and a few nanoseconds either side
    for dy in dyns {
        if cfg.fuzz {
            break;
        }
        for thr in [1i128 << 63, 1i128 << 62, 1i128 << 64, 1i128 << 53, 1_000_000_000_000_000_000, 10_000_000_000_000_000_000, NPC, 2 * NPC, 3 * NPC, 50 * NPC] {
            for sign in [1i128, -1] {
                for sec in -40i128..=40 {
                    i += 1;
                    if i % n != sh {
                        continue;
                    }
                    rep.class("reading-threshold");
                    for dn in [-1i128, 0, 1, 500_000_000] {
                        let rd = sign * thr + sec * NS_S + dn;
                        let su = UNIFORM[(sec.rem_euclid(6)) as usize];
                        check(rep, &w, w.to_tai(rd, dy), su, dy);
                        check_from(rep, &w, rd, dy, su);
                        // the same distance from J2000 counted in TAI
                        check(rep, &w, j2k + rd, su, dy);
                    }
                }
            }
        }
    }
    let mut r = Rng::new(cfg.seed, 0x0700 + sh as u64);
    let nrand = cfg.budget(3_000_000);
    let lat = gen::reading_lattice(TimeScale::TAI, &w.leap);
    for k in 0..nrand {
        let k = cfg.k(k, &mut r);
        let t = match r.below(10) {
            0..=3 => j2k + gen::rand_count_within(&mut r, span),
            4..=5 => j2k + r.range_i128(-span, span),
            6..=7 => gen::rand_reading(&mut r, TimeScale::TAI, &lat),
            _ => j2k + r.range_i128(-NPC, NPC),
        };
        let su = *r.pick(&UNIFORM);
        let dy = *r.pick(&dyns);
        check(rep, &w, t, su, dy);
        check_from(rep, &w, t - j2k + r.range_i64(-1000, 1000) as i128, dy, su);
        if k % 4 == 1 {
            check_cross_dyn(rep, &w, t - j2k + r.range_i64(-1000, 1000) as i128, dy);
        }
        if k % 4 == 3 {
            let kk = match r.below(3) {
                0 => r.range_i64(-800, 800),
                1 => r.range_i64(-73_000, 73_000),
                _ => r.range_i64(-2_000_000, 2_000_000),
            };
            check_jde_exact(rep, kk, dy);
        }
        if k % 2 == 0 {
            let delta = match r.below(3) {
                0 => 101,
                1 => r.range_i64(101, 200) as i128,
                _ => r.range_i64(101, 10_000) as i128,
            };
            check_order(rep, t, delta, su, dy);
        }
    }
}
