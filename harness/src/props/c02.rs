//! C02 Duration <-> integer nanosecond count round-trips; one canonical representation.
use crate::core::*;
use crate::gen;
use crate::model::dur::*;
use hifitime::{Duration, TimeUnits, Unit};

pub fn meta() -> Meta {
    Meta {
        rule: "events = one constructor or accessor call: from_parts(raw i16,u64), from_total_nanoseconds(i128)/total_nanoseconds, from_truncated_nanoseconds(i64), try_truncated_nanoseconds/truncated_nanoseconds, n*Unit / Unit*n / n.unit() for i64 n and all nine units, compose(sign, 7 fields), std::time::Duration conversions. Expected: canonical-form predicate on every observed duration, read-back == clamp(input integer), total == c*NPC+ns. Generation: boundary lattice (+-k centuries +-d, i64 limits, beyond +-MAX) and stratified random i128 / (i16,u64) / i64 / field tuples. Non-trivial = ns >= one century given to the constructor, century field at an i16 limit, count beyond the bounds, duration below -1 century read back, i64 accessor between 2 and 3 centuries or beyond i64, i64 unit product overflowing i64, composed field >= 2^32, std negative/huge; distinct = distinct (op,input) hashes among those. Round 6: (producers) the (centuries, nanoseconds) form of what about 120 public operations return for one (a, b, scale, i64, f64) tuple - Duration arithmetic and rounding, unit products, float constructors, text / serde / std round trips, the duration field of every Epoch operation and every duration-valued view - must be canonical; (aliasing) counts whose century number is ordinary modulo 2^15..2^64, i64 / unit / field / std values that alias a small value modulo 2^8..2^48. Rounds 7-9: totals next to the 64-bit thresholds decomposed into in-range calendar fields; the full cross of the special values of the seven composed fields x twenty-four day counts x sign (375 000 tuples).",
        assumptions: &["the canonical-form convention is the one in the statement (0 <= ns < one century; only MAX carries a full century)", "Rust i128 arithmetic"],
        mandatory: &["parts/ns>=century", "parts/cent-limit", "total/beyond-bounds", "total/below-minus-one-century", "i64/2-to-3-centuries", "i64/beyond-i64", "i64/within-2-centuries-negative", "unit/i64-product-overflow", "compose/large-field", "compose/negative", "std/negative", "std/huge"],
        thorough_scale: 40,
        exhaustive_part: "lattice of i128 counts and (i16,u64) parts at every branch boundary of the constructors",
    }
}

fn canon_check(rep: &mut Rep, op: &str, got: Result<Duration, PanicInfo>, want: i128, det: &dyn Fn() -> String) -> Option<Duration> {
    match got {
        Err(p) => {
            rep.fail(&format!("{op}/panic/{}", p.class()), None, || format!("{} panicked: {} at {}", det(), p.msg, p.loc));
            None
        }
        Ok(d) => {
            let parts = d.to_parts();
            if !is_canonical(parts) {
                rep.fail(&format!("{op}/noncanonical"), None, || format!("{} -> non-canonical {}", det(), fmt_parts(parts)));
            } else if parts != canon(want) {
                rep.fail(&format!("{op}/value"), None, || format!("{} -> got {} want {} (count {})", det(), fmt_parts(parts), fmt_parts(canon(want)), clamp(want)));
            }
            Some(d)
        }
    }
}

pub fn check_parts(rep: &mut Rep, c: i16, ns: u64) {
    if !rep.tick() {
        return;
    }
    let want = count_raw(c, ns);
    let mut nt = false;
    if ns as i128 >= NPC {
        rep.class("parts/ns>=century");
        nt = true;
    }
    if c == i16::MAX || c == i16::MIN {
        rep.class("parts/cent-limit");
        nt = true;
    }
    if nt {
        rep.nt(h64(&[1, c as u64, ns]));
    }
    rep.log_event("from_parts", || format!("\"c\":{},\"ns\":{},\"want\":\"{}\"", c, ns, want));
    rep.sample("from_parts", || format!("from_parts({c},{ns}) => want {}", fmt_parts(canon(want))));
    if let Some(d) = canon_check(rep, "from_parts", guard(|| Duration::from_parts(c, ns)), want, &|| format!("from_parts({c},{ns})")) {
        check_readback(rep, d);
    }
}

/// accessors on an existing duration
pub fn check_readback(rep: &mut Rep, d: Duration) {
    let p = d.to_parts();
    let cnt = count(p);
    if rep.tick() {
        if p.0 < -1 {
            rep.class("total/below-minus-one-century");
            rep.nt(h64(&[2, p.0 as u64, p.1]));
        }
        match guard(|| d.total_nanoseconds()) {
            Err(e) => rep.fail(&format!("total_nanoseconds/panic/{}", e.class()), None, || format!("{}.total_nanoseconds() panicked {}", fmt_parts(p), e.msg)),
            Ok(v) => {
                if v != cnt {
                    let f = if p.0 < -1 && v == f1_read(p) { Some("F1-total_nanoseconds") } else { None };
                    rep.fail("total_nanoseconds/value", f, || format!("{}.total_nanoseconds() = {} want {}", fmt_parts(p), v, cnt));
                }
            }
        }
    }
    if rep.tick() {
        let fits = cnt >= i64::MIN as i128 && cnt <= i64::MAX as i128;
        let within2 = cnt.abs() <= 2 * NPC;
        if !fits {
            rep.class("i64/beyond-i64");
            rep.nt(h64(&[3, p.0 as u64, p.1]));
        } else if !within2 {
            rep.class("i64/2-to-3-centuries");
            rep.nt(h64(&[3, p.0 as u64, p.1]));
        } else if cnt < -NPC {
            rep.class("i64/within-2-centuries-negative");
            rep.nt(h64(&[3, p.0 as u64, p.1]));
        }
        let t = guard(|| d.try_truncated_nanoseconds());
        let n = guard(|| d.truncated_nanoseconds());
        match (&t, &n) {
            (Ok(t), Ok(n)) => {
                match t {
                    Ok(v) => {
                        if *v as i128 != cnt {
                            rep.fail("try_truncated_nanoseconds/value", None, || format!("{}.try_truncated_nanoseconds() = Ok({}) want count {}", fmt_parts(p), v, cnt));
                        }
                        if *n != *v {
                            rep.fail("truncated_nanoseconds/differs-from-try", None, || format!("{}: try=Ok({v}) non-failing={n}", fmt_parts(p)));
                        }
                    }
                    Err(_) => {
                        if within2 {
                            rep.fail("try_truncated_nanoseconds/err-within-2-centuries", None, || format!("{}.try_truncated_nanoseconds() = Err, count {} is within +-2 centuries", fmt_parts(p), cnt));
                        }
                        let bound = if cnt < 0 { i64::MIN } else { i64::MAX };
                        if *n != bound {
                            rep.fail("truncated_nanoseconds/bound", None, || format!("{}: try=Err, non-failing={} want {}", fmt_parts(p), n, bound));
                        }
                    }
                }
                if !fits && t.is_ok() {
                    rep.fail("try_truncated_nanoseconds/ok-beyond-i64", None, || format!("{}: count {} does not fit i64 but Ok returned", fmt_parts(p), cnt));
                }
            }
            _ => {
                let e = t.err().or(n.err()).unwrap();
                rep.fail(&format!("truncated_nanoseconds/panic/{}", e.class()), None, || format!("{} i64 accessor panicked: {}", fmt_parts(p), e.msg));
            }
        }
    }
    // std conversion out
    if rep.tick() {
        if cnt < 0 {
            rep.class("std/negative");
            rep.nt(h64(&[4, p.0 as u64, p.1]));
        }
        match guard(|| std::time::Duration::from(d)) {
            Err(e) => rep.fail(&format!("into_std/panic/{}", e.class()), None, || format!("std::time::Duration::from({}) panicked {}", fmt_parts(p), e.msg)),
            Ok(sd) => {
                let want = if cnt < 0 { 0 } else { cnt as u128 };
                if sd.as_nanos() != want {
                    rep.fail("into_std/value", None, || format!("std::time::Duration::from({}) = {} ns want {}", fmt_parts(p), sd.as_nanos(), want));
                }
            }
        }
    }
}

pub fn check_total(rep: &mut Rep, v: i128) {
    if !rep.tick() {
        return;
    }
    if v < MIN_NS || v > MAX_NS {
        rep.class("total/beyond-bounds");
        rep.nt(h64(&[5, v as u64, (v >> 64) as u64]));
    }
    rep.log_event("from_total", || format!("\"v\":\"{}\",\"want\":\"{}\"", v, clamp(v)));
    rep.sample("from_total_nanoseconds", || format!("from_total_nanoseconds({v}) => want {}", fmt_parts(canon(v))));
    if let Some(d) = canon_check(rep, "from_total_nanoseconds", guard(|| Duration::from_total_nanoseconds(v)), v, &|| format!("from_total_nanoseconds({v})")) {
        check_readback(rep, d);
    }
}

pub fn check_i64(rep: &mut Rep, n: i64) {
    if rep.tick() {
        rep.sample("from_truncated_nanoseconds", || format!("from_truncated_nanoseconds({n})"));
        if let Some(d) = canon_check(rep, "from_truncated_nanoseconds", guard(|| Duration::from_truncated_nanoseconds(n)), n as i128, &|| format!("from_truncated_nanoseconds({n})")) {
            check_readback(rep, d);
        }
    }
}

pub fn check_unit(rep: &mut Rep, n: i64, u: Unit) {
    let want = n as i128 * unit_ns(u);
    let det = || format!("{n} * {:?}", u);
    if rep.tick() {
        if n.checked_mul(unit_ns(u) as i64).is_none() {
            rep.class("unit/i64-product-overflow");
            rep.nt(h64(&[6, n as u64, unit_ns(u) as u64]));
        } else if want.abs() > NPC {
            rep.class("unit/beyond-one-century");
            rep.nt(h64(&[6, n as u64, unit_ns(u) as u64]));
        }
        rep.log_event("unit", || format!("\"n\":\"{}\",\"unit_ns\":\"{}\",\"want\":\"{}\"", n, unit_ns(u), clamp(want)));
        rep.sample("unit", || format!("{n} * {:?} => want {}", u, fmt_parts(canon(want))));
        canon_check(rep, "n*Unit", guard(|| n * u), want, &det);
    }
    if rep.tick() {
        canon_check(rep, "Unit*n", guard(|| u * n), want, &det);
    }
    if rep.tick() {
        let got = guard(|| match u {
            Unit::Nanosecond => n.nanoseconds(),
            Unit::Microsecond => n.microseconds(),
            Unit::Millisecond => n.milliseconds(),
            Unit::Second => n.seconds(),
            Unit::Minute => n.minutes(),
            Unit::Hour => n.hours(),
            Unit::Day => n.days(),
            Unit::Week => n.weeks(),
            Unit::Century => n.centuries(),
        });
        canon_check(rep, "n.unit()", got, want, &det);
    }
}

pub fn check_compose(rep: &mut Rep, sign: i8, f: [u64; 7]) {
    if !rep.tick() {
        return;
    }
    let w = [NS_D, NS_H, NS_MIN, NS_S, NS_MS, NS_US, 1];
    let mut sum: i128 = 0;
    for i in 0..7 {
        sum += f[i] as i128 * w[i];
    }
    let want = if sign < 0 { -sum } else { sum };
    if f.iter().any(|x| *x >= 1 << 32) {
        rep.class("compose/large-field");
        rep.nt(h64(&[7, sign as u64, f[0], f[1], f[2], f[3], f[4], f[5], f[6]]));
    }
    if sign < 0 {
        rep.class("compose/negative");
    }
    rep.log_event("compose", || format!("\"sign\":{},\"f\":[{},{},{},{},{},{},{}],\"want\":\"{}\"", sign, f[0], f[1], f[2], f[3], f[4], f[5], f[6], clamp(want)));
    rep.sample("compose", || format!("compose({sign},{:?}) => want {}", f, fmt_parts(canon(want))));
    canon_check(rep, "compose", guard(|| Duration::compose(sign, f[0], f[1], f[2], f[3], f[4], f[5], f[6])), want, &|| format!("compose({sign},{:?})", f));
}

pub fn check_std(rep: &mut Rep, secs: u64, nanos: u32) {
    if !rep.tick() {
        return;
    }
    let sd = std::time::Duration::new(secs, nanos);
    let v = sd.as_nanos();
    let want = if v > MAX_NS as u128 { MAX_NS } else { v as i128 };
    if v > MAX_NS as u128 {
        rep.class("std/huge");
        rep.nt(h64(&[8, secs, nanos as u64]));
    }
    rep.sample("from_std", || format!("Duration::from(std {secs}s {nanos}ns)"));
    canon_check(rep, "from_std", guard(|| Duration::from(sd)), want, &|| format!("Duration::from(std {secs}s+{nanos}ns)"));
}

/// the named constants are canonical and hold the documented counts
pub fn check_consts(rep: &mut Rep) {
    for (name, d, want) in [
        ("ZERO", Duration::ZERO, 0i128),
        ("MAX", Duration::MAX, MAX_NS),
        ("MIN", Duration::MIN, MIN_NS),
        ("EPSILON", Duration::EPSILON, 1),
        ("MIN_POSITIVE", Duration::MIN_POSITIVE, 1),
        ("MIN_NEGATIVE", Duration::MIN_NEGATIVE, -1),
        ("default()", Duration::default(), 0),
    ] {
        if !rep.tick() {
            continue;
        }
        rep.class("consts");
        let p = d.to_parts();
        if !is_canonical(p) || count(p) != want {
            rep.fail("const/value", None, || format!("Duration::{name} = {} want count {}", fmt_parts(p), want));
        }
        check_readback(rep, d);
    }
}

/// "Every duration value has exactly one observable (centuries, nanoseconds) form": every public operation that *returns*
/// a duration - or an epoch, whose `duration` field is public - must leave a canonical pair behind, whatever else it
/// computes (the value is judged by the property that owns the operation; only the form is judged here). A result in
/// the form (c, one century) has the right count and is still a different observable value: it prints, compares,
/// hashes and serializes differently from (c + 1, 0).
pub fn check_producers(rep: &mut Rep, c: i128, o: i128, s: hifitime::TimeScale, q: i64, x: f64) {
    use hifitime::{Epoch, TimeScale};
    if !rep.tick() {
        return;
    }
    rep.class("producers");
    let (c, o) = (clamp(c), clamp(o));
    if c % NPC == 0 || (c + o) % NPC == 0 || (c - o) % NPC == 0 {
        rep.class("producers/whole-century-in-reach");
    }
    rep.nt(h64(&[99, c as u64, (c >> 64) as u64, o as u64, q as u64]));
    let (d, e) = (mk(c), mk(o));
    let r = guard(|| {
        let mut v: Vec<(&'static str, Duration)> = vec![];
        v.push(("a + b", d + e));
        v.push(("a - b", d - e));
        v.push(("-a", -d));
        v.push(("a.abs()", d.abs()));
        v.push(("a * q", d * q));
        v.push(("q * a", q * d));
        if q != 0 {
            v.push(("a / q", d / q));
        }
        let mut t = d;
        t += e;
        v.push(("a += b", t));
        let mut t = d;
        t -= e;
        v.push(("a -= b", t));
        for u in UNITS {
            v.push(("a + Unit", d + u));
            v.push(("a - Unit", d - u));
            let mut t = d;
            t += u;
            v.push(("a += Unit", t));
            let mut t = d;
            t -= u;
            v.push(("a -= Unit", t));
            v.push(("q * Unit", q * u));
            v.push(("Unit * q", u * q));
            if x.is_finite() {
                v.push(("x * Unit", x * u));
                v.push(("Unit * x", u * x));
            }
        }
        v.push(("a.min(b)", d.min(e)));
        v.push(("a.max(b)", d.max(e)));
        if o != 0 {
            v.push(("a.floor(b)", d.floor(e)));
            v.push(("a.ceil(b)", d.ceil(e)));
            v.push(("a.round(b)", d.round(e)));
        }
        v.push(("a.approx()", d.approx()));
        if x.is_finite() && c.abs() <= 100 * NPC {
            v.push(("a * x", d * x));
            v.push(("x * a", x * d));
        }
        if x.is_finite() {
            v.push(("from_seconds(x)", Duration::from_seconds(x)));
            v.push(("from_days(x)", Duration::from_days(x)));
            v.push(("x.seconds()", x.seconds()));
            v.push(("x.centuries()", x.centuries()));
        }
        v.push(("q.seconds()", q.seconds()));
        v.push(("q.days()", q.days()));
        v.push(("q.centuries()", q.centuries()));
        v.push(("from_total_nanoseconds", Duration::from_total_nanoseconds(c + o)));
        v.push(("from_truncated_nanoseconds", Duration::from_truncated_nanoseconds(q)));
        if let Ok(p) = <Duration as std::str::FromStr>::from_str(&format!("{}", d)) {
            v.push(("from_str(Display)", p));
        }
        if let Ok(j) = serde_json::to_string(&d) {
            if let Ok(p) = serde_json::from_str::<Duration>(&j) {
                v.push(("serde round trip", p));
            }
        }
        if c >= 0 {
            let sd: std::time::Duration = d.into();
            v.push(("std round trip", Duration::from(sd)));
        }
        // epochs: the public `duration` field after every operation, and every duration-valued view (kept a day inside the
        // bounds so that no conversion saturates; saturation is judged by the owners of the conversions)
        let lim = 32_000 * NPC;
        if c.abs() < lim && o.abs() < lim && (c + o).abs() < lim && (c - o).abs() < lim {
            let ep = Epoch::from_duration(d, s);
            let dynamical = matches!(s, TimeScale::ET | TimeScale::TDB);
            v.push(("Epoch::from_duration", ep.duration));
            v.push(("(e + d).duration", (ep + e).duration));
            v.push(("(e - d).duration", (ep - e).duration));
            let mut t = ep;
            t += e;
            v.push(("(e += d).duration", t.duration));
            let mut t = ep;
            t -= e;
            v.push(("(e -= d).duration", t.duration));
            v.push(("(e + Unit::Century).duration", (ep + Unit::Century).duration));
            v.push(("(e - Unit::Century).duration", (ep - Unit::Century).duration));
            v.push(("(e + Unit::Day).duration", (ep + Unit::Day).duration));
            v.push(("e - f", (ep + e) - ep));
            v.push(("e - f (reversed)", ep - (ep + e)));
            if o != 0 && !dynamical {
                v.push(("e.floor(b).duration", ep.floor(e).duration));
                v.push(("e.ceil(b).duration", ep.ceil(e).duration));
                v.push(("e.round(b).duration", ep.round(e).duration));
            }
            if c.abs() < 101 * NPC {
                for s2 in crate::model::scale::SCALES {
                    v.push(("to_time_scale(s2).duration", ep.to_time_scale(s2).duration));
                    v.push(("to_duration_in_time_scale(s2)", ep.to_duration_in_time_scale(s2)));
                }
                v.push(("to_tai_duration", ep.to_tai_duration()));
                v.push(("to_utc_duration", ep.to_utc_duration()));
                v.push(("to_tt_duration", ep.to_tt_duration()));
                v.push(("to_gpst_duration", ep.to_gpst_duration()));
                v.push(("to_qzsst_duration", ep.to_qzsst_duration()));
                v.push(("to_gst_duration", ep.to_gst_duration()));
                v.push(("to_bdt_duration", ep.to_bdt_duration()));
                v.push(("to_et_duration", ep.to_et_duration()));
                v.push(("to_tdb_duration", ep.to_tdb_duration()));
                v.push(("to_jde_tai_duration", ep.to_jde_tai_duration()));
                v.push(("to_jde_utc_duration", ep.to_jde_utc_duration()));
                v.push(("to_jde_tt_duration", ep.to_jde_tt_duration()));
                v.push(("to_mjd_tt_duration", ep.to_mjd_tt_duration()));
                v.push(("to_jde_et_duration", ep.to_jde_et_duration()));
                v.push(("to_jde_tdb_duration", ep.to_jde_tdb_duration()));
                v.push(("to_tt_since_j2k", ep.to_tt_since_j2k()));
                v.push(("to_duration_since_j1900", ep.to_duration_since_j1900()));
                v.push(("duration_in_year", ep.duration_in_year()));
                v.push(("from_tai_duration", Epoch::from_tai_duration(d).duration));
                v.push(("from_utc_duration", Epoch::from_utc_duration(d).duration));
                v.push(("from_gpst_duration", Epoch::from_gpst_duration(d).duration));
                v.push(("from_unix_duration", Epoch::from_unix_duration(d).duration));
                v.push(("from_mjd_tai(days)", Epoch::from_mjd_tai((c / NS_D) as f64).duration));
                v.push(("from_jde_tai(days)", Epoch::from_jde_tai(2_415_020.5 + (c / NS_D) as f64).duration));
                if let Ok(p) = <Epoch as std::str::FromStr>::from_str(&format!("{}", ep)) {
                    v.push(("Epoch::from_str(Display).duration", p.duration));
                }
                let (y, m, dd, hh, mi, ss, ns) = ep.to_gregorian_utc();
                if let Ok(p) = Epoch::maybe_from_gregorian(y, m, dd, hh, mi, ss, ns, s) {
                    v.push(("from_gregorian(fields).duration", p.duration));
                }
                if c >= 0 {
                    let (wk, tow) = ep.to_time_of_week();
                    v.push(("from_time_of_week.duration", Epoch::from_time_of_week(wk, tow, s).duration));
                }
            }
        }
        v
    });
    match r {
        Err(p) => rep.fail(&format!("producers/panic/{}", p.class()), None, || format!("operations on count {} (other {}, scale {:?}, q {}, x {}) panicked: {} at {}", c, o, s, q, fmt_f64(x), p.msg, p.loc)),
        Ok(v) => {
            for (name, got) in v {
                let parts = got.to_parts();
                if !is_canonical(parts) {
                    rep.fail(&format!("producers/noncanonical/{name}"), None, || format!("{name} with a = {} (count {c}), b = {} (count {o}), scale {:?}, q = {q}, x = {} left the non-canonical pair {}", fmt_parts(canon(c)), fmt_parts(canon(o)), s, fmt_f64(x), fmt_parts(parts)));
                }
            }
        }
    }
}

pub fn run(cfg: &Cfg, rep: &mut Rep) {
    let lat = gen::dur_lattice();
    if rep.shard == 0 {
        check_consts(rep);
    }
    let sh = rep.shard as usize;
    let n = NSHARDS as usize;
    let npc = NPC as u64;
    // lattice
    let mut i = 0usize;
    let mut mine = || {
        i += 1;
        i % n == sh
    };
    let lat_part: &[i128] = if cfg.fuzz { &[] } else { &lat };
    for &v in lat_part {
        for d in [0i128, MAX_NS, -MAX_NS] {
            if mine() {
                check_total(rep, v + d);
            }
        }
        if v >= i64::MIN as i128 && v <= i64::MAX as i128 && mine() {
            check_i64(rep, v as i64);
        }
    }
    for v in [i128::MAX, i128::MIN, i128::MAX - 1, i128::MIN + 1, MAX_NS + 1, MIN_NS - 1] {
        if cfg.fuzz {
            break;
        }
        if mine() {
            check_total(rep, v);
        }
    }
    for c in [i16::MIN, i16::MIN + 1, -3, -2, -1, 0, 1, 2, 3, i16::MAX - 1, i16::MAX] {
        if cfg.fuzz {
            break;
        }
        for ns in [0u64, 1, npc - 1, npc, npc + 1, 2 * npc - 1, 2 * npc, 2 * npc + 1, 5 * npc, 5 * npc + 7, u64::MAX - 1, u64::MAX] {
            if mine() {
                check_parts(rep, c, ns);
            }
        }
    }
    // aliasing: counts whose number of whole centuries is an ordinary small number modulo 2^15 / 2^16 / 2^31 / 2^32 / 2^63 / 2^64
    // (what a narrowing cast of the quotient keeps), integer unit counts and fields that alias a small value modulo 2^32
    for w in [15u32, 16, 31, 32, 63, 64] {
        if cfg.fuzz {
            break;
        }
        for k in [1i128, -1, 2, -2, 3, -3] {
            for c in [-32768i128, -32767, -2, -1, 0, 1, 5, 32766, 32767] {
                for ns in [0i128, 1, 17, NPC - 1] {
                    if let Some(v) = (k << w).checked_add(c).and_then(|q| q.checked_mul(NPC)).and_then(|x| x.checked_add(ns)) {
                        if mine() {
                            rep.class("total/century-number-aliases");
                            check_total(rep, v);
                        }
                    }
                }
            }
        }
    }
    for w in [8u32, 16, 31, 32, 33, 48] {
        if cfg.fuzz {
            break;
        }
        for k in [1i64, -1, 2, -3] {
            for x in [0i64, 1, -1, 5, 1000, 86_400] {
                let n = (k << w) + x;
                if mine() {
                    rep.class("i64/aliases-small-value");
                    check_i64(rep, n);
                    for u in UNITS {
                        check_unit(rep, n, u);
                    }
                    if n > 0 {
                        check_std(rep, n as u64, (x.unsigned_abs() % 1_000_000_000) as u32);
                        let mut f = [0u64; 7];
                        f[(w as usize + x.unsigned_abs() as usize) % 7] = n as u64;
                        check_compose(rep, if k % 2 == 0 { -1 } else { 1 }, f);
                    }
                }
            }
        }
    }
    // compose: the full cross of the special values of all seven fields and the sign (seed-independent) - calendar-like
    // fields at the ends of their usual ranges and one past them, day counts at the 64-bit and century thresholds of the
    // total. A fast path guarded on "the usual ranges" or on the day count alone is entered and left on exactly these.
    if !cfg.fuzz {
        // (round 10: and day counts at the far end - the last whole centuries of the range, where "the day count alone is
        // already past the end" is nearly true)
        let days = [
            0u64, 1, 36_524, 36_525, 73_049, 106_751, 106_752, 213_503, 213_504, (1 << 25) + 1, (1 << 53) - 1,
            100 * 36_525, 100 * 36_525 - 1, 32_766 * 36_525 - 1, 32_766 * 36_525, 32_767 * 36_525 - 1, 32_767 * 36_525, 32_767 * 36_525 + 1,
            32_767 * 36_525 + 18_262, 32_768 * 36_525 - 1, 32_768 * 36_525, 32_768 * 36_525 + 1, u32::MAX as u64, 1 << 31,
        ];
        let usual = [23u64, 59, 59, 999, 999, 999];
        for &d in &days {
            for code in 0..15_625u32 {
                if !mine() {
                    continue;
                }
                let mut f = [d, 0, 0, 0, 0, 0, 0];
                let mut c = code;
                for i in 0..6 {
                    f[i + 1] = match c % 5 {
                        0 => 0,
                        1 => 1,
                        2 => usual[i],
                        3 => usual[i] + 1,
                        _ => usual[i] / 2 + 3,
                    };
                    c /= 5;
                }
                rep.class("compose/cross-of-special-fields");
                check_compose(rep, [-1i8, 1, 0][(code % 3) as usize], f);
                if code % 7 == 0 {
                    check_compose(rep, [1i8, -1, -128][(code % 3) as usize], f);
                }
            }
        }
    }
    // every producer on whole centuries and their neighbours (the landings where a carry has to happen)
    for k in -40i128..=40 {
        if cfg.fuzz {
            break;
        }
        for dlt in [0i128, 1, -1] {
            for (j, o) in [0i128, 1, NPC, -NPC, NS_D, k * NPC, -k * NPC, NPC - 1, NS_S].into_iter().enumerate() {
                if mine() {
                    let s = crate::model::scale::SCALES[(k + 40 + j as i128) as usize % 9];
                    check_producers(rep, k * NPC + dlt, o, s, [1i64, -1, 2, 100, 36525][j % 5], [1.0, -1.0, 0.5, 100.0, 36525.0][j % 5]);
                }
            }
        }
    }
    for &b in &[MAX_NS, MIN_NS, MAX_NS - NPC, MIN_NS + NPC, 32_767 * NPC, -32_767 * NPC] {
        if cfg.fuzz {
            break;
        }
        for dlt in [0i128, 1, -1] {
            for o in [0i128, 1, -1, NPC, -NPC, 2 * NPC, b, -b] {
                if mine() {
                    check_producers(rep, b + dlt, o, hifitime::TimeScale::TAI, -1, 1.0);
                }
            }
        }
    }
    for u in UNITS {
        if cfg.fuzz {
            break;
        }
        let f = unit_ns(u);
        let mut ns: Vec<i64> = vec![0, 1, -1, 2, -2, i64::MAX, i64::MIN, i64::MAX - 1, i64::MIN + 1];
        for b in [i64::MAX as i128 / f, MAX_NS / f, NPC / f, 2 * NPC / f, 3 * NPC / f] {
            for d in [-1i128, 0, 1] {
                let x = b + d;
                if x <= i64::MAX as i128 {
                    ns.push(x as i64);
                    ns.push((-x) as i64);
                }
            }
        }
        for x in ns {
            if mine() {
                check_unit(rep, x, u);
            }
        }
    }
    for s in [i64::MAX, i64::MIN, i64::MIN + 1, -(2 * NPC as i64), -(2 * NPC as i64) - 1, -(2 * NPC as i64) + 1, 2 * NPC as i64, -(NPC as i64), -(NPC as i64) - 1] {
        if mine() {
            check_i64(rep, s);
        }
    }
    // random
    let mut r = Rng::new(cfg.seed, 0x0200 + sh as u64);
    let nrand = cfg.budget(6_000_000);
    for k in 0..nrand {
        let k = cfg.k(k, &mut r);
        match k % 8 {
            0 | 1 => {
                let (c, ns) = gen::rand_raw_parts(&mut r);
                check_parts(rep, c, ns);
            }
            2 => {
                let v = match r.below(5) {
                    4 => {
                        // century number aliasing a representable one modulo a power of two
                        let w = *r.pick(&[15u32, 16, 31, 32, 63, 64]);
                        let k = r.range_i64(-3, 3) as i128;
                        (k << w).checked_add(r.range_i64(-32768, 32767) as i128).and_then(|q| q.checked_mul(NPC)).map(|x| x.saturating_add(r.below(NPC as u64) as i128)).unwrap_or(i128::MAX)
                    }
                    0 => ((r.u64() as u128) << 64 | r.u64() as u128) as i128,
                    1 => gen::rand_count(&mut r, &lat) + *r.pick(&[0, MAX_NS, -MAX_NS]),
                    _ => gen::rand_count(&mut r, &lat),
                };
                check_total(rep, v);
            }
            3 => {
                let v = match r.below(4) {
                    0 => r.u64() as i64,
                    1 => (r.range_i64(-3, 3) as i128 * NPC + r.range_i64(-5, 5) as i128).clamp(i64::MIN as i128, i64::MAX as i128) as i64,
                    2 => r.range_i64(-(3 * NPC as i128).max(i64::MIN as i128) as i64, i64::MAX),
                    _ => super::c01::rand_factor(&mut r, &[0, 1, -1]),
                };
                check_i64(rep, v);
            }
            4 | 5 => {
                let u = *r.pick(&UNITS);
                let f = unit_ns(u);
                let v = match r.below(5) {
                    0 => r.u64() as i64,
                    1 => {
                        let b = *r.pick(&[i64::MAX as i128 / f, MAX_NS / f, NPC / f, 2 * NPC / f]);
                        let x = (b + r.range_i64(-2, 2) as i128).min(i64::MAX as i128) as i64;
                        if r.bool() {
                            x
                        } else {
                            x.wrapping_neg()
                        }
                    }
                    2 => r.range_i64(-100000, 100000),
                    _ => super::c01::rand_factor(&mut r, &[0, 1, -1, i64::MAX, i64::MIN]),
                };
                check_unit(rep, v, u);
            }
            6 => {
                let mut f = [0u64; 7];
                for (j, x) in f.iter_mut().enumerate() {
                    *x = match r.below(6) {
                        0 => 0,
                        1 => r.below(1000),
                        2 => r.below(1 << 53),
                        3 => (1u64 << 53) - 1 - r.below(3),
                        4 => {
                            let k = r.below(54) as u32;
                            r.below(1u64 << k)
                        }
                        _ => r.below(100_000),
                    };
                    if j == 0 && r.chance(3, 4) {
                        // keep most sums in range: days below 2^25
                        *x %= 1 << 25;
                    }
                }
                let sign = *r.pick(&[-128i8, -1, 0, 1, 127, -2, 2]);
                check_compose(rep, sign, f);
                if r.chance(1, 4) {
                    // well-formed calendar-like fields (h < 24, min < 60 ...) whose total sits next to a 64-bit threshold of the
                    // nanosecond count: the day count alone is below it, the time of day carries it across
                    let t = *r.pick(&[1i128 << 63, 1 << 64, 1 << 62, 1 << 53, i64::MAX as i128, NPC, 2 * NPC, (1i128 << 63) + NPC])
                        + match r.below(3) {
                            0 => r.range_i64(-3, 3) as i128,
                            1 => r.range_i64(-2_000_000_000, 2_000_000_000) as i128,
                            _ => r.range_i128(-NS_D, NS_D),
                        };
                    let t = t.max(0) as u128;
                    let (nd, nh, nm, nsec) = (NS_D as u128, NS_H as u128, NS_MIN as u128, NS_S as u128);
                    let g = [(t / nd) as u64, (t % nd / nh) as u64, (t % nh / nm) as u64, (t % nm / nsec) as u64, (t % nsec / 1_000_000) as u64, (t % 1_000_000 / 1000) as u64, (t % 1000) as u64];
                    rep.class("compose/total-next-to-a-64-bit-threshold");
                    check_compose(rep, sign, g);
                }
                if r.chance(1, 8) {
                    // fields that sum to exactly k centuries (the negation of a whole century has to carry), split at random
                    let k = 1 + r.below(40);
                    let mut rest = k as i128 * NPC;
                    let mut g = [0u64; 7];
                    let w = [NS_D, NS_H, NS_MIN, NS_S, NS_MS, NS_US, 1];
                    for j in (1..7).rev() {
                        if r.bool() {
                            let take = r.below(5000) as i128 * w[j];
                            if take <= rest {
                                g[j] = (take / w[j]) as u64;
                                rest -= take;
                            }
                        }
                    }
                    // what is left goes to days and hours (a century is a whole number of both)
                    let dleft = rest / NS_D;
                    rest -= dleft * NS_D;
                    let dd = if r.bool() && dleft > 0 { 1 } else { 0 };
                    g[0] += (dleft - dd) as u64;
                    g[1] += (dd * 24) as u64;
                    // the remainder below one day is a whole number of nanoseconds
                    g[6] += rest as u64;
                    rep.class("compose/whole-centuries");
                    check_compose(rep, sign, g);
                }
            }
            _ => {
                if r.chance(1, 4) {
                    let c = gen::rand_count(&mut r, &lat);
                    let o = match r.below(6) {
                        0 => gen::rand_count(&mut r, &lat),
                        1 => r.range_i64(-40, 40) as i128 * NPC - c,
                        2 => c - r.range_i64(-40, 40) as i128 * NPC,
                        3 => *r.pick(&[NPC, -NPC, 1, -1, NS_D, NS_S, 0]),
                        4 => -c,
                        _ => gen::rand_count_within(&mut r, 3 * NPC),
                    };
                    let q = super::c01::rand_factor(&mut r, &[0, 1, -1, 2, -2, 100]);
                    let x = match r.below(4) {
                        0 => q as f64,
                        1 => (c / NS_S) as f64,
                        2 => r.range_i64(-40, 40) as f64 * 100.0,
                        _ => (r.f64_unit() - 0.5) * 1e6,
                    };
                    check_producers(rep, c, o, gen::rand_scale(&mut r), q, x);
                    continue;
                }
                if r.chance(1, 3) {
                    // the seconds / sub-second split of every binary boundary a 64-bit shortcut could trip on
                    // (2^63, 2^64 nanoseconds; one / two centuries; the maximum duration; 2^32, 2^63, 2^64 seconds)
                    let b: u128 = *r.pick(&[1u128 << 63, 1u128 << 64, (1u128 << 64) - 1, NPC as u128, 2 * NPC as u128, MAX_NS as u128, (1u128 << 32) * NS_S as u128, (1u128 << 53), (u64::MAX as u128) * NS_S as u128, (1u128 << 63) * NS_S as u128]);
                    let v = match r.below(4) {
                        0 => b + r.below(5) as u128 - 2,
                        1 => b + r.below(2_000_000_000) as u128 - 1_000_000_000,
                        2 => b - b % NS_S as u128 + r.below(1_000_000_000) as u128,
                        _ => b + r.below(3 * NS_S as u64) as u128,
                    };
                    let secs = (v / NS_S as u128).min(u64::MAX as u128) as u64;
                    rep.class("std/binary-boundary");
                    check_std(rep, secs, (v % NS_S as u128) as u32);
                    continue;
                }
                let secs = match r.below(4) {
                    0 => r.u64(),
                    1 => (MAX_NS / NS_S) as u64 + r.below(5) - 2,
                    2 => r.below(1 << 40),
                    _ => r.below(100),
                };
                check_std(rep, secs, r.below(1_000_000_000) as u32);
            }
        }
    }
}
