//! C04 Epoch +/- Duration is exact in the epoch's own time scale; differences invert it.
use crate::core::*;
use crate::gen;
use crate::model::dur::*;
use crate::model::scale::*;
use crate::props::c05::ep;
use hifitime::{Epoch, TimeScale};

pub fn meta() -> Meta {
    Meta {
        rule: "events = e+d, e-d, +=, -=, e+/-Unit, e+/-=Unit, e+f64 (integer seconds, |x|*1e9 < 2^53), the identities (e+d)-e==d, (e+d)-d==e, e+(f-e)==f for same-scale pairs, and cross-scale f-e for all 81 scale pairs. Expected: scale preserved; parts == canonical(clamp(E +/- D)); cross-scale difference == f.duration - reading of e's instant in f's scale by M-SCALE (exact for uniform scales and UTC, +-30 ns when ET/TDB is involved; instants with no UTC pre-image are don't-care). Generation: reading lattice x duration lattice restricted so that no bound is hit, stratified random readings (year 1..9999 and beyond) and durations of either sign, all nine scales, across century boundaries and across each leap second for UTC. Non-trivial = negative reading, negative duration, result crosses a century boundary or zero, cross-scale pair, UTC operand within 40 s of a leap second; distinct = distinct (reading, scale, duration) hashes among those. Rounds 7-9: each direction judged when its own exact result is representable, bounds included; the bounds and their neighbours as readings x duration lattice x whole centuries; differences whose right operand lies in the first / last three centuries of the range for all 81 scale pairs (judged when reading, TAI pivot and re-expression are representable); Unit steps from the first and last two centuries. Round 10: whole float seconds m x 2^k (m below 2^26) over the whole representable range and round decimal literals to 9e13 s.",
        assumptions: &["M-SCALE / M-LEAP / M-DYN models; 30 ns tolerance when ET/TDB is involved (statement of C07)"],
        mandatory: &["add/negative-reading", "add/negative-duration", "add/crosses-century", "diff/cross-scale-uniform", "diff/cross-scale-utc", "diff/cross-scale-dyn", "diff/near-leap-second", "addf64/integer-seconds", "addf64/beyond-i64-ns"],
        thorough_scale: 50,
        exhaustive_part: "reading lattice x duration lattice x nine scales (no-bound subset)",
    }
}

fn in_range(v: i128) -> bool {
    v > MIN_NS + NS_D && v < MAX_NS - NS_D
}

pub fn check_add(rep: &mut Rep, e_c: i128, s: TimeScale, d_c: i128) {
    // "such that the result stays representable": each direction is judged when its own exact result is (an epoch on a bound
    // can still move away from it)
    let representable = |v: i128| (MIN_NS..=MAX_NS).contains(&v);
    let (ok_add, ok_sub) = (representable(e_c + d_c), representable(e_c - d_c));
    if !(ok_add || ok_sub) || !representable(e_c) || !representable(d_c) {
        return;
    }
    if !rep.tick() {
        return;
    }
    let e = ep(e_c, s);
    let d = mk(d_c);
    let mut nt = false;
    if e_c < 0 {
        rep.class("add/negative-reading");
        nt = true;
    }
    if d_c < 0 {
        rep.class("add/negative-duration");
        nt = true;
    }
    if (e_c + d_c).div_euclid(NPC) != e_c.div_euclid(NPC) {
        rep.class("add/crosses-century");
        nt = true;
    }
    if nt {
        rep.nt(h64(&[1, e_c as u64, (e_c >> 64) as u64, scale_idx(s), d_c as u64, (d_c >> 64) as u64]));
    }
    rep.sample("add", || format!("Epoch({}, {:?}) +/- {}", e_c, s, d_c));
    let det = || format!("Epoch({}, {:?}) op {}", e_c, s, d_c);
    match guard(|| {
        let a = e + d;
        let b = e - d;
        let mut c = e;
        c += d;
        let mut f = e;
        f -= d;
        (a, b, c, f, (e + d) - e, (e + d) - d, e + (a - e), (e - d) - e)
    }) {
        Err(p) => rep.fail(&format!("add/panic/{}", p.class()), None, || format!("{} panicked: {} at {}", det(), p.msg, p.loc)),
        Ok((a, b, c, f, i1, i2, i3, i4)) => {
            for (name, g, w, ok) in [("add", a, e_c + d_c, ok_add), ("sub", b, e_c - d_c, ok_sub), ("add_assign", c, e_c + d_c, ok_add), ("sub_assign", f, e_c - d_c, ok_sub), ("(e+d)-d", i2, e_c, ok_add), ("e+(f-e)", i3, e_c + d_c, ok_add)] {
                if !ok {
                    continue;
                }
                if g.time_scale != s {
                    rep.fail(&format!("{name}/scale-changed"), None, || format!("{}: {name} tagged {:?}", det(), g.time_scale));
                }
                let gp = g.duration.to_parts();
                if !is_canonical(gp) || count(gp) != w {
                    rep.fail(&format!("{name}/value"), None, || format!("{}: {name} = {} (count {}), want {}", det(), fmt_parts(gp), count(gp), w));
                }
            }
            if ok_add && count_d(i1) != d_c {
                rep.fail("(e+d)-e/value", None, || format!("{}: (e+d)-e = {} want {}", det(), count_d(i1), d_c));
            }
            if ok_sub && count_d(i4) != -d_c {
                rep.fail("(e-d)-e/value", None, || format!("{}: (e-d)-e = {} want {}", det(), count_d(i4), -d_c));
            }
        }
    }
}

pub fn check_unit(rep: &mut Rep, e_c: i128, s: TimeScale) {
    if !in_range(e_c + NPC) || !in_range(e_c - NPC) {
        return;
    }
    for u in UNITS {
        // also from the reading one unit before / after a whole century (k chosen by the input): the step lands exactly on
        // the boundary where the (centuries, nanoseconds) form carries
        let k = (e_c.rem_euclid(6) - 2) * NPC;
        let cu0 = unit_ns(u);
        // ... and from readings within one unit of the 64-bit thresholds of the nanosecond count
        let t = [(1i128 << 63) - 1, -(1i128 << 63), 1i128 << 64, 1i128 << 53][(e_c.rem_euclid(4)) as usize];
        // ... and from the first and last centuries of the representable range: a step that borrows from century -32767 into
        // -32768 (or carries from 32766 into 32767) and one that lands next to the bound itself - the result is representable,
        // "no bound is hit", whatever the century fields do on the way (the operations whose exact result is not are not judged)
        for e_c in [e_c, k - cu0, k + cu0, t - cu0 / 2 - 1, t - 1, t + 1, t - cu0, t + cu0 / 3, MIN_NS + NPC + cu0 / 2, MAX_NS - NPC - cu0 / 2, MIN_NS + cu0 + 1 + e_c.rem_euclid(7), MAX_NS - cu0 - 1 - e_c.rem_euclid(7)] {
        if !rep.tick() {
            continue;
        }
        let e = ep(e_c, s);
        let cu = unit_ns(u);
        match guard(|| {
            let mut c = e;
            c += u;
            let mut f = e;
            f -= u;
            (e + u, e - u, c, f)
        }) {
            Err(p) => rep.fail(&format!("unit/panic/{}", p.class()), None, || format!("Epoch({e_c},{:?}) +/- {:?} panicked {}", s, u, p.msg)),
            Ok((a, b, c, f)) => {
                for (name, g, w) in [("add_unit", a, e_c + cu), ("sub_unit", b, e_c - cu), ("add_assign_unit", c, e_c + cu), ("sub_assign_unit", f, e_c - cu)] {
                    if !(MIN_NS..=MAX_NS).contains(&w) {
                        continue;
                    }
                    if g.time_scale != s || count_d(g.duration) != w || !is_canonical(g.duration.to_parts()) {
                        rep.fail(&format!("{name}/value"), None, || format!("Epoch({e_c},{:?}) {name} {:?} = ({}, {:?}) want {} in canonical form", s, u, fmt_parts(g.duration.to_parts()), g.time_scale, w));
                    }
                }
            }
        }
        }
    }
}

pub fn check_f64(rep: &mut Rep, e_c: i128, s: TimeScale, secs: i64) {
    if !in_range(e_c + secs as i128 * NS_S) {
        return;
    }
    // only whole seconds whose nanosecond count is exactly representable as a double (so that the float product
    // of C18 is exact): either below 2^53 ns or with enough trailing zero bits
    let ns = secs as i128 * NS_S;
    if (secs as f64) as i64 != secs || crate::model::flt::trunc_i128(secs as f64 * 1e9) != ns {
        return;
    }
    if !rep.tick() {
        return;
    }
    rep.class("addf64/integer-seconds");
    if ns.abs() > i64::MAX as i128 {
        rep.class("addf64/beyond-i64-ns");
        rep.nt(h64(&[9, e_c as u64, scale_idx(s), secs as u64]));
    }
    let e = ep(e_c, s);
    let x = secs as f64;
    match guard(|| e + x) {
        Err(p) => rep.fail(&format!("addf64/panic/{}", p.class()), None, || format!("Epoch({e_c},{:?}) + {x} panicked {}", s, p.msg)),
        Ok(g) => {
            let w = e_c + secs as i128 * NS_S;
            if g.time_scale != s || count_d(g.duration) != w || !is_canonical(g.duration.to_parts()) {
                rep.fail("addf64/value", None, || format!("Epoch({e_c},{:?}) + {x} s = ({}, {:?}) want {}", s, count_d(g.duration), g.time_scale, w));
            }
        }
    }
}

/// f - e across scales
pub fn check_diff(rep: &mut Rep, w: &World, f_c: i128, sf: TimeScale, e_c: i128, se: TimeScale) {
    if !rep.tick() {
        return;
    }
    let (f, e) = (ep(f_c, sf), ep(e_c, se));
    let t_e = w.to_tai(e_c, se);
    let tol: i128 = if is_dyn(sf) || is_dyn(se) { if sf == se { 0 } else { 30 } } else { 0 };
    let cls = if sf == se {
        "diff/same-scale"
    } else if tol > 0 {
        "diff/cross-scale-dyn"
    } else if sf == TimeScale::UTC || se == TimeScale::UTC {
        "diff/cross-scale-utc"
    } else {
        "diff/cross-scale-uniform"
    };
    rep.class(cls);
    let near_leap = (sf == TimeScale::UTC || se == TimeScale::UTC) && w.leap.iter().any(|&(ts, _)| (t_e - ts as i128 * NS_S).abs() < 80 * NS_S);
    if near_leap {
        rep.class("diff/near-leap-second");
    }
    if sf != se || near_leap {
        rep.nt(h64(&[2, f_c as u64, scale_idx(sf), e_c as u64, (e_c >> 64) as u64, scale_idx(se)]));
    }
    if tol > 0 && (sf == TimeScale::UTC || se == TimeScale::UTC) && w.near_utc_discontinuity(t_e, 100) {
        rep.class("diff/dyn-near-utc-discontinuity(dc)");
        return;
    }
    // reading of e's instant in f's scale
    let e_in_f = if sf == se { Some(e_c) } else { w.from_tai(t_e, sf) };
    let e_in_f = match e_in_f {
        Some(v) => v,
        None => {
            rep.class("diff/no-utc-preimage(dc)");
            return;
        }
    };
    let want = f_c - e_in_f;
    if !in_range(want) || !in_range(e_in_f) {
        return;
    }
    rep.sample(cls, || format!("Epoch({},{:?}) - Epoch({},{:?}) => want {}", f_c, sf, e_c, se, want));
    if tol == 0 {
        rep.log_event("ediff", || format!("\"f\":\"{}\",\"sf\":\"{:?}\",\"e\":\"{}\",\"se\":\"{:?}\",\"want\":\"{}\"", f_c, sf, e_c, se, want));
    }
    match guard(|| f - e) {
        Err(p) => rep.fail(&format!("diff/panic/{}", p.class()), None, || format!("Epoch({},{:?}) - Epoch({},{:?}) panicked {}", f_c, sf, e_c, se, p.msg)),
        Ok(g) => {
            let gc = count_d(g);
            if (gc - want).abs() > tol {
                let mut fid = None;
                if sf == TimeScale::UTC && se != TimeScale::UTC && tol == 0 && w.in_f12b_window(t_e) && gc == f_c - w.from_tai_f12b(t_e, sf) {
                    fid = Some("F12b-tai-to-utc-frame");
                }
                if sf == TimeScale::UTC && is_dyn(se) && (gc - (f_c - w.from_tai_f12b(t_e, sf))).abs() <= tol && w.in_f12b_window(t_e) {
                    fid = Some("F12b-tai-to-utc-frame");
                }
                rep.fail(&format!("diff/value/{cls}"), fid, || format!("Epoch({},{:?}) - Epoch({},{:?}) = {} want {} (tol {} ns; off by {})", f_c, sf, e_c, se, gc, want, tol, gc - want));
            }
        }
    }
}

pub fn run(cfg: &Cfg, rep: &mut Rep) {
    let sh = rep.shard as usize;
    let n = NSHARDS as usize;
    let w = World::new(crate::model::dynm::NAIF);
    let dl = gen::dur_lattice();
    let mut i = 0usize;
    let lats: Vec<Vec<i128>> = SCALES.iter().map(|s| gen::reading_lattice(*s, &w.leap)).collect();
    for (si, s) in SCALES.iter().enumerate() {
        if cfg.fuzz {
            break;
        }
        for (j, &e_c) in lats[si].iter().enumerate() {
            i += 1;
            if i % n != sh {
                continue;
            }
            check_unit(rep, e_c, *s);
            for &d in dl.iter().step_by(1 + j % 3) {
                check_add(rep, e_c, *s, d);
            }
        }
    }
    // the bounds themselves and their neighbours as readings: whatever leads away from the bound is exact
    if !cfg.fuzz {
        for (si, s) in SCALES.iter().enumerate() {
            for (j, e_c) in [MAX_NS, MAX_NS - 1, MIN_NS, MIN_NS + 1, MAX_NS - NPC, MIN_NS + NPC, MAX_NS - NPC + 1, MIN_NS + NPC - 1, MAX_NS - NPC / 2, MIN_NS + NPC / 2].into_iter().enumerate() {
                if (si * 10 + j) % n != sh {
                    continue;
                }
                rep.class("add/reading-on-a-bound");
                check_unit(rep, e_c, *s);
                for &d in dl.iter() {
                    check_add(rep, e_c, *s, d);
                }
                for k in 1..=40i128 {
                    check_add(rep, e_c, *s, k * NPC);
                    check_add(rep, e_c, *s, -k * NPC);
                    check_add(rep, e_c, *s, k * NPC + 1);
                    check_add(rep, e_c, *s, -k * NPC - 1);
                }
            }
        }
        // differences whose right operand sits in the first / last centuries of the range, for every ordered pair of scales:
        // judged whenever the reading, its TAI pivot and its re-expression are all representable (no bound is hit on the way)
        let mut r2 = Rng::new(7, 0x04b0 + sh as u64);
        for _ in 0..4000 {
            let (s, s2) = (SCALES[r2.below(9) as usize], SCALES[r2.below(9) as usize]);
            let off = r2.range_i128(0, 3 * NPC);
            let e_c = if r2.chance(1, 2) { MIN_NS + off } else { MAX_NS - off };
            let t_e = w.to_tai(e_c, s);
            if !in_range(t_e) {
                continue;
            }
            if let Some(near) = w.from_tai(t_e, s2) {
                let f_c = near + if r2.chance(1, 2) { 2 * NPC } else { -2 * NPC } * if e_c < 0 { 1 } else { -1 } + r2.range_i64(-1000, 1000) as i128;
                if in_range(near) && in_range(f_c) {
                    rep.class("diff/right-operand-next-to-a-bound");
                    check_diff(rep, &w, f_c, s2, e_c, s);
                }
            }
        }
    }
    let mut r = Rng::new(cfg.seed, 0x0400 + sh as u64);
    let nrand = cfg.budget(6_000_000);
    for k in 0..nrand {
        let k = cfg.k(k, &mut r);
        let si = r.below(9) as usize;
        let s = SCALES[si];
        let e_c = if r.chance(1, 8) { gen::rand_count_within(&mut r, 30000 * NPC) } else { gen::rand_reading(&mut r, s, &lats[si]) };
        let d_c = match r.below(4) {
            0 => gen::rand_count(&mut r, &dl),
            1 => (*r.pick(&dl)).clamp(-200 * NPC, 200 * NPC),
            _ => gen::rand_count_within(&mut r, 200 * NPC),
        };
        check_add(rep, e_c, s, d_c);
        if k % 16 == 0 {
            check_unit(rep, e_c, s);
            check_f64(rep, e_c, s, r.range_i64(-9_007_199, 9_007_199));
            // larger whole seconds with an exactly representable nanosecond count (multiples of 2^k), up to +-10000 years
            let k = r.range_i64(10, 30) as u32;
            let big = (r.range_i64(-(315_576_000_000 >> k), 315_576_000_000 >> k)) << k;
            check_f64(rep, e_c, s, big);
            check_f64(rep, e_c, s, *r.pick(&[9_300_000_000i64, -9_300_000_000, 9_223_372_800, -9_223_372_800, 10_000_000_000, 100_000_000_000, -31_557_600_000]));
            // whole seconds over the whole representable range (to 3.2 million years): m x 2^k with m below 2^32, so that the
            // nanosecond count is still an exact double; and the decimal round numbers people type
            let k2 = r.range_i64(8, 20) as u32;
            let m = r.range_i64(-(1 << 26), 1 << 26);
            check_f64(rep, e_c.clamp(-1000 * NPC, 1000 * NPC), s, m << k2);
            check_f64(rep, e_c.clamp(-1000 * NPC, 1000 * NPC), s, *r.pick(&[700_000_000_000i64, -700_000_000_000, 1i64 << 43, -(1i64 << 43), 1i64 << 46, 1_000_000_000_000, 10_000_000_000_000, -50_000_000_000_000, 3i64 << 44, 5i64 << 43, 90_000_000_000_000]));
        }
        // cross-scale difference
        let sj = r.below(9) as usize;
        let s2 = SCALES[sj];
        let t_e = w.to_tai(e_c, s);
        if e_c.abs() < 101 * NPC {
            // right operand = e; left operand f in scale s2, close to or far from e
            if let Some(near) = w.from_tai(t_e, s2) {
                let f_c = near + match r.below(3) {
                    0 => r.range_i64(-100, 100) as i128,
                    1 => gen::rand_count_within(&mut r, 100 * NS_S),
                    _ => gen::rand_count_within(&mut r, 50 * NPC),
                };
                check_diff(rep, &w, f_c, s2, e_c, s);
            }
        }
        if k % 4 == 0 {
            // aim at leap seconds: e in TAI/GPST near an entry, f in UTC (and the reverse)
            let (ts, o) = *r.pick(&w.leap);
            let t = ts as i128 * NS_S + r.range_i64(-45, 45 + o) as i128 * NS_S + *r.pick(&[0i128, 1, -1, 250, 499_999_999, 999_999_999]);
            let su = *r.pick(&[TimeScale::TAI, TimeScale::GPST, TimeScale::TT, TimeScale::BDT]);
            let e2 = w.from_tai(t, su).unwrap();
            check_diff(rep, &w, t - 20 * NS_S, TimeScale::UTC, e2, su);
            if let Some(u) = w.from_tai(t, TimeScale::UTC) {
                check_diff(rep, &w, e2 + r.range_i64(-5, 5) as i128, su, u, TimeScale::UTC);
            }
        }
    }
}
