//! C14 floor / ceil / round snap to multiples of the step, on the correct side.
use crate::core::*;
use crate::gen;
use crate::model::dur::*;
use crate::model::scale::SCALES;
use hifitime::{Duration, Epoch};

pub fn meta() -> Meta {
    Meta {
        rule: "events = Duration::floor/ceil/round(d, s), Epoch::floor/ceil/round (all nine scales) and approx (no-panic only). Expected: floor = div_euclid(d,|s|)*|s|, ceil = floor+|s|, round = floor if 2(d-floor) < |s| else ceil, all clamped, zero step -> zero; epoch versions act on the own-scale duration and keep the scale. Generation: d from the boundary lattice and stratified random counts of either sign (incl. below -1 century), steps of either sign: the nine units, primes, random 1 ns..centuries, |s| > |d|, exact multiples, exact ties. Non-trivial = d negative, step negative, |s| > |d|, exact multiple, exact tie, result saturates, d below -1 century; distinct = distinct (d,s) hashes among those.",
        assumptions: &["when the exact floor lies below the minimum duration, ceil/round may be derived either from the exact or from the saturated floor (the statement does not say which)"],
        mandatory: &["d/negative", "s/negative", "s/larger-than-d", "d/exact-multiple", "d/exact-tie", "d/below-minus-one-century", "epoch/before-reference", "step/zero"],
        thorough_scale: 60,
        exhaustive_part: "lattice durations x lattice steps",
    }
}

struct Want {
    fl: i128,
    ce: [i128; 2],
    rd: [i128; 2],
}

fn model(d: i128, s: i128) -> Want {
    if s == 0 {
        // zero step yields zero
        return Want { fl: 0, ce: [0, 0], rd: [0, 0] };
    }
    let a = s.abs();
    let fl_exact = d.div_euclid(a) * a;
    let ce_exact = fl_exact + a;
    let rd_exact = if 2 * (d - fl_exact) < a { fl_exact } else { ce_exact };
    // variant derived from the saturated floor
    let fl = clamp(fl_exact);
    let ce2 = clamp(fl + a);
    let rd2 = if 2 * (d - fl) < (ce2 - d).abs() * 2 && (d - fl) < (ce2 - d).abs() { fl } else { ce2 };
    Want { fl, ce: [clamp(ce_exact), ce2], rd: [clamp(rd_exact), rd2] }
}

/// Deformed model for known finding F1 (operands below -1 century read as c*NPC - ns).
fn model_f1(dp: Parts, sp: Parts) -> (i128, i128, i128) {
    let d1 = f1_read(dp);
    let s1 = f1_read(sp);
    if s1 == 0 {
        let fl = 0i128;
        let ce = clamp(f1_read(canon(fl)) + count(sp).abs());
        return (fl, ce, ce);
    }
    let fl = clamp(d1 - d1.rem_euclid(s1));
    let ce = clamp(f1_read(canon(fl)) + clamp(count(sp).abs()));
    let d = count(dp);
    let rd = if clamp(d - fl) < clamp(ce - d).abs() { fl } else { ce };
    (fl, ce, rd)
}

pub fn check(rep: &mut Rep, d: Duration, s: Duration) {
    if !rep.tick() {
        return;
    }
    let (dp, sp) = (d.to_parts(), s.to_parts());
    let (cd, cs) = (count(dp), count(sp));
    let w = model(cd, cs);
    let mut nt = false;
    if cd < 0 {
        rep.class("d/negative");
        nt = true;
    }
    if cs < 0 {
        rep.class("s/negative");
        nt = true;
    }
    if cs == 0 {
        rep.class("step/zero");
        nt = true;
    } else {
        if cs.abs() > cd.abs() {
            rep.class("s/larger-than-d");
            nt = true;
        }
        if cd % cs == 0 {
            rep.class("d/exact-multiple");
            nt = true;
        } else if 2 * cd.rem_euclid(cs.abs()) == cs.abs() {
            rep.class("d/exact-tie");
            nt = true;
        }
    }
    if dp.0 < -1 {
        rep.class("d/below-minus-one-century");
        nt = true;
    }
    if w.fl == MIN_NS || w.ce[0] == MAX_NS {
        rep.class("result/saturates");
        nt = true;
    }
    if nt {
        rep.nt(h64(&[dp.0 as u64, dp.1, sp.0 as u64, sp.1]));
    }
    rep.log_event("frc", || format!("\"d\":\"{}\",\"s\":\"{}\",\"fl\":\"{}\",\"ce\":[\"{}\",\"{}\"],\"rd\":[\"{}\",\"{}\"]", cd, cs, w.fl, w.ce[0], w.ce[1], w.rd[0], w.rd[1]));
    rep.sample("duration", || format!("{}.floor/ceil/round({}) => want floor {} ceil {} round {}", fmt_parts(dp), fmt_parts(sp), w.fl, w.ce[0], w.rd[0]));
    // F1 reaches these calls through either operand or through the intermediate floor read back by ceil
    let f1_applies = dp.0 < -1 || sp.0 < -1 || canon(w.fl).0 < -1;
    let (f1f, f1c, f1r) = if f1_applies { model_f1(dp, sp) } else { (0, 0, 0) };
    let det = |op: &str| format!("{}.{op}({})", fmt_parts(dp), fmt_parts(sp));
    let one = |rep: &mut Rep, op: &str, got: Result<Duration, PanicInfo>, ok: &[i128], f1v: i128| match got {
        Err(e) => rep.fail(&format!("{op}/panic/{}", e.class()), None, || format!("{} panicked: {} at {}", det(op), e.msg, e.loc)),
        Ok(g) => {
            let gp = g.to_parts();
            if !is_canonical(gp) || !ok.contains(&count(gp)) {
                let f = if f1_applies && is_canonical(gp) && count(gp) == f1v { Some("F1-floor-ceil-round") } else { None };
                rep.fail(&format!("{op}/value"), f, || format!("{} = {} (count {}), want count {:?}", det(op), fmt_parts(gp), count(gp), ok));
            }
        }
    };
    one(rep, "floor", guard(|| d.floor(s)), &[w.fl], f1f);
    one(rep, "ceil", guard(|| d.ceil(s)), &w.ce, f1c);
    one(rep, "round", guard(|| d.round(s)), &w.rd, f1r);
}

pub fn check_epoch(rep: &mut Rep, e: Epoch, s: Duration) {
    if !rep.tick() {
        return;
    }
    let dp = e.duration.to_parts();
    let sp = s.to_parts();
    let (cd, cs) = (count(dp), count(sp));
    if cd < 0 {
        rep.class("epoch/before-reference");
        rep.nt(h64(&[77, dp.0 as u64, dp.1, sp.0 as u64, sp.1, u8::from(e.time_scale) as u64]));
    }
    let w = model(cd, cs);
    let f1_applies = dp.0 < -1 || sp.0 < -1 || canon(w.fl).0 < -1;
    let (f1f, f1c, f1r) = if f1_applies { model_f1(dp, sp) } else { (0, 0, 0) };
    rep.sample("epoch", || format!("Epoch({}, {:?}).floor({})", fmt_parts(dp), e.time_scale, fmt_parts(sp)));
    let det = |op: &str| format!("Epoch({}, {:?}).{op}({})", fmt_parts(dp), e.time_scale, fmt_parts(sp));
    let one = |rep: &mut Rep, op: &str, got: Result<Epoch, PanicInfo>, ok: &[i128], f1v: i128| match got {
        Err(p) => rep.fail(&format!("epoch-{op}/panic/{}", p.class()), None, || format!("{} panicked: {}", det(op), p.msg)),
        Ok(g) => {
            let gp = g.duration.to_parts();
            if g.time_scale != e.time_scale {
                rep.fail(&format!("epoch-{op}/scale-changed"), None, || format!("{} changed the time scale to {:?}", det(op), g.time_scale));
            }
            if !is_canonical(gp) || !ok.contains(&count(gp)) {
                let f = if f1_applies && is_canonical(gp) && count(gp) == f1v { Some("F1-floor-ceil-round") } else { None };
                rep.fail(&format!("epoch-{op}/value"), f, || format!("{} = {} (count {}), want count {:?}", det(op), fmt_parts(gp), count(gp), ok));
            } else if cs != 0 {
                // derived order facts on the real values
                let g = count(gp);
                match op {
                    "floor" => {
                        if g > cd && g != MIN_NS {
                            rep.fail("epoch-floor/later-than-epoch", None, || det(op));
                        }
                    }
                    "ceil" => {
                        if g <= cd && g != MAX_NS {
                            rep.fail("epoch-ceil/not-later", None, || det(op));
                        }
                    }
                    _ => {}
                }
            }
        }
    };
    one(rep, "floor", guard(|| e.floor(s)), &[w.fl], f1f);
    one(rep, "ceil", guard(|| e.ceil(s)), &w.ce, f1c);
    one(rep, "round", guard(|| e.round(s)), &w.rd, f1r);
}

pub fn check_approx(rep: &mut Rep, d: Duration) {
    if !rep.tick() {
        return;
    }
    match guard(|| d.approx()) {
        Err(e) => rep.fail(&format!("approx/panic/{}", e.class()), None, || format!("{}.approx() panicked: {}", fmt_parts(d.to_parts()), e.msg)),
        Ok(g) => {
            // approx is `round` to the largest unit (day .. nanosecond) present in the decomposition of |d| (its rustdoc,
            // and the mechanism the property is anchored in); judged within one century of zero, where `round` itself
            // is free of known finding F1
            let c = count_d(d);
            if c.abs() < NPC {
                let m = c.abs();
                let u = [NS_D, NS_H, NS_MIN, NS_S, NS_MS, NS_US, 1].into_iter().find(|u| m >= *u).unwrap_or(1);
                let w = model(c, u);
                rep.class("approx/judged");
                if 2 * (c - c.div_euclid(u) * u) == u {
                    rep.class("approx/exact-tie");
                }
                if !w.rd.contains(&count_d(g)) {
                    rep.fail("approx/value", None, || format!("{}.approx() = {} (count {}), want round to {} ns = {}", fmt_parts(d.to_parts()), fmt_parts(g.to_parts()), count_d(g), u, w.rd[0]));
                }
            }
        }
    }
}

const PRIMES: [i128; 8] = [2, 3, 7, 11, 1_000_003, 999_999_937, 86_399_999_999_989, 3_155_759_999_999_999_989];

fn step_lattice() -> Vec<i128> {
    let mut v = vec![0i128];
    for u in UNITS {
        for k in [1i128, 2, 3, 10, 15, 30] {
            v.push(k * unit_ns(u));
            v.push(-k * unit_ns(u));
        }
    }
    for p in PRIMES {
        v.push(p);
        v.push(-p);
    }
    v.push(MAX_NS);
    v.push(MIN_NS);
    v.push(2 * NPC + 5);
    v.push(-2 * NPC - 5);
    v
}

fn rand_step(r: &mut Rng) -> i128 {
    let m = match r.below(10) {
        0..=2 => unit_ns(*r.pick(&UNITS)) * r.range_i64(1, 60) as i128,
        3 => *r.pick(&PRIMES),
        4..=6 => {
            let k = r.below(72) as u32 + 1;
            r.range_i128(1, (1i128 << k) - 1 + 1)
        }
        7 => r.range_i128(1, 4 * NPC),
        _ => r.range_i64(1, 1_000_000) as i128,
    };
    clamp(if r.chance(1, 4) { -m } else { m })
}

pub fn run(cfg: &Cfg, rep: &mut Rep) {
    let lat = gen::dur_lattice();
    let steps = step_lattice();
    let sh = rep.shard as usize;
    let n = NSHARDS as usize;
    for (i, &x) in lat.iter().enumerate() {
        if i % n != sh || cfg.fuzz {
            continue;
        }
        let d = mk(x);
        check_approx(rep, d);
        for &s in &steps {
            check(rep, d, mk(s));
            let ts = SCALES[(i + (s.unsigned_abs() % 9) as usize) % 9];
            check_epoch(rep, Epoch::from_duration(d, ts), mk(s));
        }
    }
    let mut r = Rng::new(cfg.seed, 0x1400 + sh as u64);
    let nrand = cfg.budget(8_000_000);
    for k in 0..nrand {
        let k = cfg.k(k, &mut r);
        let s = rand_step(&mut r);
        let d = match k % 8 {
            0 => {
                // exact multiple
                let q = r.range_i128(-(MAX_NS / s.abs()).min(1 << 40), (MAX_NS / s.abs()).min(1 << 40));
                q * s.abs()
            }
            1 => {
                // exact tie (needs even step) or half +- 1
                let q = r.range_i128(-(MAX_NS / s.abs()).min(1 << 40), (MAX_NS / s.abs()).min(1 << 40) - 1);
                q * s.abs() + s.abs() / 2 + r.range_i64(-1, 1) as i128
            }
            2 => {
                let q = r.range_i128(-(MAX_NS / s.abs()).min(1 << 40), (MAX_NS / s.abs()).min(1 << 40));
                q * s.abs() + r.range_i64(-2, 2) as i128
            }
            3 if r.bool() => {
                // a quotient d / |s| beyond 2^31, 2^32, 2^63, 2^64 (what a narrower integer or a double would keep of it)
                let qmax = MAX_NS / s.abs();
                let base = *r.pick(&[1i128 << 31, 1 << 32, 1 << 53, 1 << 63, 1 << 64, 1 << 70]);
                if base + 1000 < qmax {
                    rep.class("quotient/beyond-a-machine-width");
                    let q = base + r.range_i64(-3, 1000) as i128;
                    (if r.bool() { q } else { -q }) * s.abs() + r.range_i128(0, s.abs() - 1)
                } else {
                    gen::rand_count_within(&mut r, s.abs())
                }
            }
            3 => gen::rand_count_within(&mut r, s.abs()),
            4 => gen::rand_count_within(&mut r, 101 * NPC),
            _ => gen::rand_count(&mut r, &lat),
        };
        let d = mk(d);
        let s = mk(s);
        check(rep, d, s);
        if k % 3 == 0 {
            check_epoch(rep, Epoch::from_duration(d, gen::rand_scale(&mut r)), s);
        }
        if k % 16 == 0 {
            check_approx(rep, d);
            // ties and near-ties of approx's own unit, both signs
            let u = *r.pick(&[NS_D, NS_H, NS_MIN, NS_S, NS_MS, NS_US]);
            let q = r.range_i64(0, 23) as i128;
            let t = q * u + u / 2 + r.range_i64(-1, 1) as i128;
            check_approx(rep, mk(if r.bool() { -t } else { t }));
        }
    }
}
