//! C10 Epoch text and serde round-trip: parse(format(e)) == e, to the nanosecond.
use crate::core::*;
use crate::gen;
use crate::model::dur::*;
use crate::model::flt;
use crate::model::scale::*;
use crate::model::text::*;
use crate::props::c05::ep;
use hifitime::efmt::consts::ISO8601;
use hifitime::efmt::Formatter;
use hifitime::{Epoch, TimeScale};
use std::str::FromStr;

pub fn meta() -> Meta {
    Meta {
        rule: "events = (a) for one epoch in any of the nine scales (calendar years -30000..30000, nine tenths of them in 1..9999): Display -> Epoch::from_str, Formatter(ISO8601) -> from_str, to_gregorian_str(own) -> from_gregorian_str, serde_json to_string -> from_str, and for UTC epochs to_rfc3339 -> from_str; (b) harness-built ISO 8601 / RFC 3339 texts (M-TEXT) with k in 0..9 fractional digits, 'T' or ' ' separator, none | Z | +-hh:mm offset (all of -23:59..+23:59 enumerated) and optional scale suffix -> from_str / from_gregorian_str; (c) numeric forms `JD|MJD|SEC x SCALE` in the uniform scales and UTC. Expected: (a) identical scale and parts; (b) parts == count of the fields in the scale (UTC when none) minus the offset, exactly; (c) |parsed - denoted| <= 1.5 ulp of the f64 magnitude in that unit + 1 ns, where JD/MJD count days from their origin on the scale's own calendar and SEC counts seconds from the scale's zero. Generation: epochs as C09 (lattice incl. leap seconds, random ns instants), all 2879 offsets x random base, all k, numeric values over +-10000 y and within one unit of zero / of the form's origin, both signs. Non-trivial = non-zero fractional part, offset present, scale other than UTC, year < 1900 or > 3408, numeric form in a GNSS scale; distinct = distinct text hashes among those. Round 6: harness-built texts with every decoration (offset of either sign, Z, fraction, scale suffix) for years -30000..0 and 10000..30000. Rounds 7-9: numeric forms with the number written +x, {:e}, {:E}, with leading zeros: Err or the denoted instant.",
        assumptions: &["M-TEXT grammar as documented (rustdoc of from_gregorian_str / from_str)", "JD in ET/TDB excluded (documented approximate)"],
        mandatory: &["rt/display", "rt/iso-formatter", "rt/gregorian-str", "rt/serde", "rt/rfc3339", "text/offset", "text/zulu", "text/frac-0", "text/frac-9", "text/frac-1..8", "text/scale-suffix", "text/space-separator", "num/JD", "num/MJD", "num/SEC", "num/gnss-scale", "num/negative-fraction", "rt/year-below-1", "rt/year-above-9999"],
        thorough_scale: 40,
        exhaustive_part: "all 2879 offsets -23:59..+23:59 x {with, without fraction}; all k = 0..9; numeric forms x 7 scales",
    }
}

fn same(rep: &mut Rep, name: &str, txt: &str, got: Result<Result<Epoch, String>, PanicInfo>, c: i128, s: TimeScale) {
    match got {
        Err(p) => rep.fail(&format!("{name}/panic/{}", p.class()), None, || format!("{name}: parsing {:?} panicked: {} at {}", txt, p.msg, p.loc)),
        Ok(Err(e)) => rep.fail(&format!("{name}/err"), None, || format!("{name}: parsing {:?} (from Epoch({}, {:?})) = Err({})", txt, c, s, e)),
        Ok(Ok(g)) => {
            if g.time_scale != s || count_d(g.duration) != c || !is_canonical(g.duration.to_parts()) {
                rep.fail(&format!("{name}/value"), None, || format!("{name}: Epoch({}, {:?}) -> {:?} -> ({}, {:?}) [off by {} ns]", c, s, txt, count_d(g.duration), g.time_scale, count_d(g.duration) - c));
            }
        }
    }
}

pub fn check_roundtrip(rep: &mut Rep, c: i128, s: TimeScale) {
    if !rep.tick() {
        return;
    }
    let e = ep(c, s);
    let f = fields_of(c, s);
    if f.ns != 0 || s != TimeScale::UTC || f.y < 1900 || f.y > 3408 {
        rep.nt(h64(&[1, c as u64, (c >> 64) as u64, scale_idx(s)]));
    }
    rep.sample("roundtrip", || format!("Epoch({}, {:?}) = {} {}", c, s, iso_display(&f), scale_name(s)));
    let es = |r: Result<Epoch, hifitime::HifitimeError>| r.map_err(|x| format!("{:?}", x));
    // Display
    rep.class("rt/display");
    let txt = guard(|| format!("{}", e)).unwrap_or_default();
    same(rep, "display->from_str", &txt, guard(|| es(Epoch::from_str(&txt))), c, s);
    // ISO8601 formatter
    rep.class("rt/iso-formatter");
    match guard(|| format!("{}", Formatter::new(e, ISO8601))) {
        Err(p) => rep.fail(&format!("iso-formatter/panic/{}", p.class()), None, || format!("Formatter(ISO8601) of Epoch({},{:?}) panicked {}", c, s, p.msg)),
        Ok(t) => same(rep, "iso-formatter->from_str", &t, guard(|| es(Epoch::from_str(&t))), c, s),
    }
    // Gregorian string in own scale
    rep.class("rt/gregorian-str");
    match guard(|| e.to_gregorian_str(s)) {
        Err(p) => rep.fail(&format!("to_gregorian_str/panic/{}", p.class()), None, || format!("to_gregorian_str of Epoch({},{:?}) panicked {}", c, s, p.msg)),
        Ok(t) => same(rep, "to_gregorian_str->from_gregorian_str", &t, guard(|| es(Epoch::from_gregorian_str(&t))), c, s),
    }
    // serde
    rep.class("rt/serde");
    match guard(|| serde_json::to_string(&e).map_err(|x| x.to_string())) {
        Err(p) => rep.fail(&format!("serde/panic/{}", p.class()), None, || format!("serialising Epoch({},{:?}) panicked {}", c, s, p.msg)),
        Ok(Err(x)) => rep.fail("serde/ser-err", None, || x),
        Ok(Ok(js)) => {
            same(rep, "serde", &js, guard(|| serde_json::from_str::<Epoch>(&js).map_err(|x| x.to_string())), c, s);
            // the other deserialisation routes of the same serialized form (owned Value, reader, escaped text)
            same(rep, "serde-from_value", &js, guard(|| serde_json::to_value(e).and_then(serde_json::from_value::<Epoch>).map_err(|x| x.to_string())), c, s);
            same(rep, "serde-from_reader", &js, guard(|| serde_json::from_reader::<_, Epoch>(js.as_bytes()).map_err(|x| x.to_string())), c, s);
            let esc = js.replace(' ', "\\u0020").replace('T', "\\u0054");
            same(rep, "serde-escaped", &esc, guard(|| serde_json::from_str::<Epoch>(&esc).map_err(|x| x.to_string())), c, s);
        }
    }
    if s == TimeScale::UTC {
        rep.class("rt/rfc3339");
        match guard(|| e.to_rfc3339()) {
            Err(p) => rep.fail(&format!("rfc3339/panic/{}", p.class()), None, || format!("to_rfc3339 of Epoch({},{:?}) panicked {}", c, s, p.msg)),
            Ok(t) => {
                let want = format!("{}+00:00", iso_display(&f));
                if t != want {
                    rep.fail("rfc3339/text", None, || format!("Epoch({},UTC).to_rfc3339() = {:?} want {:?}", c, t, want));
                }
                same(rep, "rfc3339->from_str", &t, guard(|| es(Epoch::from_str(&t))), c, s);
            }
        }
    }
}

/// harness-built text -> parsers
#[allow(clippy::too_many_arguments)]
pub fn check_text(rep: &mut Rep, f: &Fields, k: usize, sep: char, tz: Option<i32>, zulu: bool, suffix: Option<TimeScale>) {
    if !rep.tick() {
        return;
    }
    let mut txt = iso_frac(f, k, sep);
    let mut off_ns: i128 = 0;
    if zulu {
        txt.push('Z');
        rep.class("text/zulu");
    } else if let Some(m) = tz {
        let a = m.abs();
        txt.push_str(&format!("{}{:02}:{:02}", if m < 0 { '-' } else { '+' }, a / 60, a % 60));
        off_ns = m as i128 * NS_MIN;
        rep.class("text/offset");
    }
    let s = suffix.unwrap_or(TimeScale::UTC);
    if let Some(sc) = suffix {
        txt.push(' ');
        txt.push_str(scale_name(sc));
        rep.class("text/scale-suffix");
    }
    rep.class(match k {
        0 => "text/frac-0",
        9 => "text/frac-9",
        _ => "text/frac-1..8",
    });
    if sep == ' ' {
        rep.class("text/space-separator");
    }
    rep.nt(hstr(&txt));
    // local time = instant + offset  =>  instant = local - offset
    let want = count_of(f, s) - off_ns;
    rep.sample("text", || format!("{:?} => reading {} in {:?}", txt, want, s));
    for (name, r) in [("from_str", guard(|| Epoch::from_str(&txt))), ("from_gregorian_str", guard(|| Epoch::from_gregorian_str(&txt)))] {
        match r {
            Err(p) => rep.fail(&format!("text-{name}/panic/{}", p.class()), None, || format!("{name}({:?}) panicked: {} at {}", txt, p.msg, p.loc)),
            Ok(Err(e)) => rep.fail(&format!("text-{name}/err"), None, || format!("{name}({:?}) = Err({:?}); denotes reading {} in {:?}", txt, e, want, s)),
            Ok(Ok(g)) => {
                if g.time_scale != s || count_d(g.duration) != want {
                    rep.fail(&format!("text-{name}/value"), None, || format!("{name}({:?}) = ({}, {:?}); denotes ({}, {:?}) [off by {} ns]", txt, count_d(g.duration), g.time_scale, want, s, count_d(g.duration) - want));
                }
            }
        }
    }
}

const NUM_SCALES: [TimeScale; 7] = [TimeScale::TAI, TimeScale::TT, TimeScale::UTC, TimeScale::GPST, TimeScale::GST, TimeScale::BDT, TimeScale::QZSST];

pub fn check_numeric(rep: &mut Rep, form: &str, x: f64, s: TimeScale) {
    if !rep.tick() {
        return;
    }
    rep.class(match form {
        "JD" => "num/JD",
        "MJD" => "num/MJD",
        _ => "num/SEC",
    });
    if s.is_gnss() {
        rep.class("num/gnss-scale");
    }
    let txt = format!("{} {} {}", form, x, scale_name(s));
    rep.nt(hstr(&txt));
    // denoted reading (ns since the scale's zero), as an f64-free rational where it matters
    let (unit, origin_days): (f64, f64) = match form {
        "JD" => (NS_D as f64, 2_415_020.5),
        "MJD" => (NS_D as f64, 15_020.0),
        _ => (NS_S as f64, 0.0),
    };
    let denoted = if form == "SEC" { (x * unit) as i128 } else { ((x - origin_days) * unit) as i128 - greg_zero_ns(s) };
    // resolution of a 64-bit float of that magnitude, in that unit (the input itself and the value after removing the origin)
    let tol = (1.5 * flt::ulp(x.abs().max((x - origin_days).abs())) * unit).ceil() as i128 + 1 + ((x - origin_days).abs() * unit * 2.3e-16) as i128;
    rep.sample("numeric", || format!("{:?} => reading {} +- {} ns in {:?}", txt, denoted, tol, s));
    // other spellings of the same text (no blank after the prefix, doubled blanks, surrounding blanks): not documented, so
    // an Err is fine - but a value must be the instant the text denotes, never another one
    // (round 8: and other spellings of the *number* - explicit plus sign, power-of-ten exponent as `{:e}` / `{:E}` print it,
    // leading zeros: the statement promises the forms, not a number grammar, so again a value must be the right one)
    let plus = if x >= 0.0 { "+" } else { "" };
    for alt in [
        format!("{}{} {}", form, x, scale_name(s)),
        format!("{}  {} {}", form, x, scale_name(s)),
        format!(" {} {} {} ", form, x, scale_name(s)),
        format!("{} {}  {}", form, x, scale_name(s)),
        format!("{} {}{} {}", form, plus, x, scale_name(s)),
        format!("{} {:e} {}", form, x, scale_name(s)),
        format!("{} {:E} {}", form, x, scale_name(s)),
        format!("{} {}{:e} {}", form, plus, x, scale_name(s)),
        format!("{} {}00{} {}", form, if x < 0.0 { "-" } else { "" }, x.abs(), scale_name(s)),
    ] {
        if let Ok(Ok(g)) = guard(|| Epoch::from_str(&alt)) {
            rep.class("num/alternative-spelling-accepted");
            if g.time_scale != s || (count_d(g.duration) - denoted).abs() > tol {
                rep.fail(&format!("numeric/value-alt-spelling/{form}"), None, || format!("from_str({:?}) = ({}, {:?}); denotes ({} +- {}, {:?}) [off by {} ns]", alt, count_d(g.duration), g.time_scale, denoted, tol, s, count_d(g.duration) - denoted));
            }
        }
    }
    match guard(|| Epoch::from_str(&txt)) {
        Err(p) => rep.fail(&format!("numeric/panic/{}", p.class()), None, || format!("from_str({:?}) panicked: {} at {}", txt, p.msg, p.loc)),
        Ok(Err(e)) => rep.fail(&format!("numeric/err/{form}"), None, || format!("from_str({:?}) = Err({:?})", txt, e)),
        Ok(Ok(g)) => {
            if g.time_scale != s || (count_d(g.duration) - denoted).abs() > tol {
                rep.fail(&format!("numeric/value/{form}"), None, || format!("from_str({:?}) = ({}, {:?}); denotes ({} +- {}, {:?}) [off by {} ns]", txt, count_d(g.duration), g.time_scale, denoted, tol, s, count_d(g.duration) - denoted));
            }
        }
    }
}

pub fn run(cfg: &Cfg, rep: &mut Rep) {
    let sh = rep.shard as usize;
    let n = NSHARDS as usize;
    let w = World::new(crate::model::dynm::NAIF);
    let mut r = Rng::new(cfg.seed, 0x1000 + sh as u64);
    let lats: Vec<Vec<i128>> = SCALES.iter().map(|s| gen::reading_lattice(*s, &w.leap)).collect();
    let mut i = 0usize;
    for (si, s) in SCALES.iter().enumerate() {
        if cfg.fuzz {
            break;
        }
        for &c in &lats[si] {
            i += 1;
            if i % n == sh {
                check_roundtrip(rep, c, *s);
            }
        }
    }
    // all offsets x random base, with and without fraction
    for m in -(23 * 60 + 59)..=(23 * 60 + 59) {
        i += 1;
        if i % n != sh || cfg.fuzz {
            continue;
        }
        let c = gen::rand_reading(&mut r, TimeScale::UTC, &lats[4]);
        let mut f = fields_of(c, TimeScale::UTC);
        let k = r.below(10) as usize;
        f.ns -= f.ns % 10u32.pow(9 - k as u32);
        check_text(rep, &f, k, 'T', Some(m), false, None);
        f.ns = 0;
        check_text(rep, &f, 0, if m % 2 == 0 { 'T' } else { ' ' }, Some(m), false, if m % 3 == 0 { Some(SCALES[(m.rem_euclid(9)) as usize]) } else { None });
    }
    for form in ["JD", "MJD", "SEC"] {
        if cfg.fuzz {
            break;
        }
        for s in NUM_SCALES {
            for x in [0.0, 0.5, 1.0, 15020.0, 51544.5, 2451545.0, 2415020.5, 2400000.5, 60000.25, 1e9, 17.2, 66312032.18493909, -1000.5] {
                i += 1;
                if i % n == sh {
                    let span = if form == "SEC" { 3.2e11 } else { 3.7e6 };
                    let origin: f64 = if form == "JD" { 2_415_020.5 } else if form == "MJD" { 15_020.0 } else { 0.0 };
                    if (x - origin).abs() < span {
                        check_numeric(rep, form, x, s);
                    }
                }
            }
        }
    }
    let nrand = cfg.budget(1_500_000);
    for k in 0..nrand {
        let k = cfg.k(k, &mut r);
        let si = r.below(9) as usize;
        let s = SCALES[si];
        let c = gen::rand_reading(&mut r, s, &lats[si]);
        check_roundtrip(rep, c, s);
        // harness-built text
        let mut f = fields_of(c, s);
        let kd = r.below(10) as usize;
        f.ns -= f.ns % 10u32.pow(9 - kd as u32);
        let sep = if r.chance(1, 5) { ' ' } else { 'T' };
        let (tz, zulu) = match r.below(4) {
            0 => (Some(r.range_i64(-1439, 1439) as i32), false),
            1 => (None, true),
            _ => (None, false),
        };
        let suffix = if r.bool() { Some(s) } else { None };
        check_text(rep, &f, kd, sep, tz, zulu, suffix);
        if k % 4 == 0 {
            let form = *r.pick(&["JD", "MJD", "SEC"]);
            let s2 = *r.pick(&NUM_SCALES);
            let x = match form {
                "JD" => 2_415_020.5 + (r.f64_unit() - 0.5) * 7.3e6,
                "MJD" => 15_020.0 + (r.f64_unit() - 0.5) * 7.3e6,
                _ => (r.f64_unit() - 0.5) * 6.3e11,
            };
            let x = match r.below(4) {
                0 => x.round(),
                1 => x.round() + 0.5,
                2 => (x * 1000.0).round() / 1000.0,
                _ => x,
            };
            check_numeric(rep, form, x, s2);
        }
        if k % 8 == 0 {
            // values closer to zero than one unit, both signs (the sign must survive a zero integer part), and
            // values a fraction of a unit either side of the form's own origin
            let form = *r.pick(&["JD", "MJD", "SEC"]);
            let s2 = *r.pick(&NUM_SCALES);
            let mag = match r.below(5) {
                0 => 0.5,
                1 => 0.25,
                2 => 1e-9,
                3 => 0.999999999,
                _ => (r.f64_unit() * 1e9).round() / 1e9,
            };
            let x = if r.bool() { -mag } else { mag };
            rep.class(if x < 0.0 { "num/negative-fraction" } else { "num/positive-fraction" });
            if form == "SEC" || r.bool() {
                check_numeric(rep, form, x, s2);
            } else {
                let origin: f64 = if form == "JD" { 2_415_020.5 } else { 15_020.0 };
                check_numeric(rep, form, origin + x, s2);
            }
        }
        if k % 10 == 0 {
            // text round trip of epochs before year 1 and after year 9999 (the text carries a sign / a fifth digit)
            let (y0, y1) = if r.bool() { (-30000, 0) } else { (10000, 30000) };
            let (lo, hi) = gen::reading_range(s, y0, y1);
            let c = match r.below(4) {
                0 => lo + r.range_i128(0, 400 * NS_D),
                1 => hi - r.range_i128(0, 400 * NS_D),
                2 => (r.range_i128(lo, hi) / NS_D) * NS_D,
                _ => r.range_i128(lo, hi),
            };
            rep.class(if y0 < 0 { "rt/year-below-1" } else { "rt/year-above-9999" });
            check_roundtrip(rep, c, s);
            // the same years in harness-built text with every decoration (a signed or five-digit year next to an offset
            // sign, a 'Z', a fraction, a scale suffix): the decorations must not be read off the year
            let mut f = fields_of(c, s);
            let kd = r.below(10) as usize;
            f.ns -= f.ns % 10u32.pow(9 - kd as u32);
            let (tz, zulu) = match r.below(4) {
                0 => (Some(r.range_i64(1, 1439) as i32), false),
                1 => (Some(-(r.range_i64(0, 1439) as i32)), false),
                2 => (None, true),
                _ => (None, false),
            };
            rep.class(if y0 < 0 { "text/year-below-1" } else { "text/year-above-9999" });
            check_text(rep, &f, kd, if r.chance(1, 5) { ' ' } else { 'T' }, tz, zulu, if r.bool() { Some(s) } else { None });
        }
    }
}
