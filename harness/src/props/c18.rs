//! C18 Duration float interop: rounded out, truncated to ns in, never panics.
use crate::core::*;
use crate::gen;
use crate::model::dur::*;
use crate::model::flt;
use hifitime::{Duration, TimeUnits, Unit};

pub fn meta() -> Meta {
    Meta {
        rule: "events = to_seconds / to_unit(9 units) on a duration (and monotonicity over a sorted batch); x*Unit, Unit*x, x.unit(), Duration::from_<unit>(x) for f64 x and all nine units; compose_f64; Duration*f64 and f64*Duration for |d| <= 10000 y; Unit::in_seconds/from_seconds. Expected: out = exact rational within 8 ulp (of the value, or of one second's worth), correct sign, non-decreasing; in = clamp(trunc(IEEE(x*factor))) exactly, infinities -> bounds, NaN -> no panic; Duration*f64 within 2 ns + 8 ulp of the exact product d*q (exact when q is integer-valued and the product < 2^53), saturating beyond range; no panic; no step-budget overrun (hooked loop). Float generation strata: random bit patterns, subnormals, +-0, integers, integers +-1 ulp, k+0.5, short decimal fractions, powers of ten 1e-330..1e308, thresholds (i64::MAX, MAX, f64::MAX over factor) +-ulp, infinities, NaNs. Non-trivial = x non-integer, |x*factor| >= 2^53, beyond i64, saturating, subnormal, non-finite, d below -1 century, |q| < epsilon; distinct = distinct (op, bits, unit) hashes among those.",
        assumptions: &["IEEE-754 double multiplication of the host (one correctly rounded operation) is the 'real product rounded to the nearest double' of the statement", "'a few ulp' is taken as 8; Duration*f64 tolerance is 2 ns + 8 ulp(d*q)"],
        mandatory: &["in/non-integer", "in/beyond-2^53", "in/beyond-i64", "in/saturates", "in/subnormal", "in/infinite", "in/nan", "out/below-minus-one-century", "out/sub-second", "mulf/below-minus-one-century", "mulf/tiny-q", "mulf/integer-q-exact", "mulf/saturates", "out/monotone-batch"],
        thorough_scale: 60,
        exhaustive_part: "threshold lattice of floats x nine units",
    }
}

pub fn factor_f64(u: Unit) -> f64 {
    unit_ns(u) as f64
}

/// clamp(trunc(IEEE(x*factor))) ; None for NaN (any value accepted)
pub fn model_in(x: f64, u: Unit) -> Option<i128> {
    if x.is_nan() {
        return None;
    }
    let p = x * factor_f64(u);
    if p.is_nan() {
        return None;
    }
    if p == f64::INFINITY {
        return Some(MAX_NS);
    }
    if p == f64::NEG_INFINITY {
        return Some(MIN_NS);
    }
    Some(clamp(flt::trunc_i128(p)))
}

fn via_method(x: f64, u: Unit) -> Duration {
    match u {
        Unit::Nanosecond => x.nanoseconds(),
        Unit::Microsecond => x.microseconds(),
        Unit::Millisecond => x.milliseconds(),
        Unit::Second => x.seconds(),
        Unit::Minute => x.minutes(),
        Unit::Hour => x.hours(),
        Unit::Day => x.days(),
        Unit::Week => x.weeks(),
        Unit::Century => x.centuries(),
    }
}
fn via_ctor(x: f64, u: Unit) -> Option<Duration> {
    Some(match u {
        Unit::Nanosecond => Duration::from_nanoseconds(x),
        Unit::Microsecond => Duration::from_microseconds(x),
        Unit::Millisecond => Duration::from_milliseconds(x),
        Unit::Second => Duration::from_seconds(x),
        Unit::Hour => Duration::from_hours(x),
        Unit::Day => Duration::from_days(x),
        _ => return None,
    })
}

pub fn check_in(rep: &mut Rep, x: f64, u: Unit) {
    if !rep.tick() {
        return;
    }
    let want = model_in(x, u);
    let p = x * factor_f64(u);
    let mut nt = false;
    if x.is_nan() {
        rep.class("in/nan");
        nt = true;
    } else if x.is_infinite() {
        rep.class("in/infinite");
        nt = true;
    } else {
        if x.fract() != 0.0 {
            rep.class("in/non-integer");
            nt = true;
        }
        if x != 0.0 && x.abs() < f64::MIN_POSITIVE {
            rep.class("in/subnormal");
            nt = true;
        }
        if p.abs() >= 9007199254740992.0 {
            rep.class("in/beyond-2^53");
            nt = true;
        }
        if p.abs() >= 9.2e18 {
            rep.class("in/beyond-i64");
            nt = true;
        }
        if p.abs() >= MAX_NS as f64 {
            rep.class("in/saturates");
            nt = true;
        }
    }
    if nt {
        rep.nt(h64(&[1, x.to_bits(), unit_ns(u) as u64]));
    }
    rep.log_event("in", || format!("\"bits\":\"{}\",\"unit_ns\":\"{}\",\"want\":\"{}\"", x.to_bits(), unit_ns(u), want.map(|v| v.to_string()).unwrap_or("any".into())));
    rep.sample("in", || format!("{} * {:?} => want {:?}", fmt_f64(x), u, want.map(canon)));
    let forms: [(&str, Box<dyn Fn() -> Option<Duration>>); 4] = [
        ("x*Unit", Box::new(move || Some(x * u))),
        ("Unit*x", Box::new(move || Some(u * x))),
        ("x.unit()", Box::new(move || Some(via_method(x, u)))),
        ("Duration::from_unit(x)", Box::new(move || via_ctor(x, u))),
    ];
    for (name, f) in forms.iter() {
        match guard(|| f()) {
            Err(e) => rep.fail(&format!("{name}/panic/{}", e.class()), None, || format!("{} [{name}] {:?} panicked: {} at {}", fmt_f64(x), u, e.msg, e.loc)),
            Ok(None) => {}
            Ok(Some(d)) => {
                let gp = d.to_parts();
                if !is_canonical(gp) {
                    rep.fail(&format!("{name}/noncanonical"), None, || format!("{} [{name}] {:?} -> {}", fmt_f64(x), u, fmt_parts(gp)));
                } else if let Some(w) = want {
                    if count(gp) != w {
                        rep.fail(&format!("{name}/value"), None, || format!("{} [{name}] {:?} -> {} (count {}), want count {} = clamp(trunc({}))", fmt_f64(x), u, fmt_parts(gp), count(gp), w, fmt_f64(p)));
                    }
                }
            }
        }
    }
}

pub fn check_out(rep: &mut Rep, d: Duration) {
    if !rep.tick() {
        return;
    }
    let p = d.to_parts();
    let c = count(p);
    let mut nt = false;
    if p.0 < -1 {
        rep.class("out/below-minus-one-century");
        nt = true;
    }
    if c.abs() < NS_S && c != 0 {
        rep.class("out/sub-second");
        nt = true;
    }
    if c.abs() >= 1 << 53 {
        rep.class("out/beyond-2^53-ns");
        nt = true;
    }
    if nt {
        rep.nt(h64(&[2, p.0 as u64, p.1]));
    }
    rep.sample("out", || format!("{}.to_seconds()/to_unit", fmt_parts(p)));
    match guard(|| d.to_seconds()) {
        Err(e) => rep.fail(&format!("to_seconds/panic/{}", e.class()), None, || format!("{}.to_seconds() panicked {}", fmt_parts(p), e.msg)),
        Ok(x) => {
            rep.log_event("out", || format!("\"c\":\"{}\",\"bits\":\"{}\",\"judged_ok\":{}", c, x.to_bits(), flt::within_ulps(x, c, NS_S, flt::ulp((c as f64 / 1e9).abs().max(1.0)), 8.0)));
            let exact_f = c as f64 / 1e9;
            let ur = flt::ulp(exact_f.abs().max(1.0));
            let err = flt::approx_err_ulps(x, c, NS_S, ur);
            rep.note_max("to_seconds_max_err_ulps(approx)", err);
            if !flt::within_ulps(x, c, NS_S, ur, 8.0) {
                rep.fail("to_seconds/value", None, || format!("{}.to_seconds() = {} ; exact {}/1e9 ; error {} ulp", fmt_parts(p), fmt_f64(x), c, err));
            }
            if c != 0 && ((x < 0.0) != (c < 0) || x == 0.0) {
                rep.fail("to_seconds/sign", None, || format!("{}.to_seconds() = {} for count {}", fmt_parts(p), fmt_f64(x), c));
            }
        }
    }
    for u in UNITS {
        match guard(|| d.to_unit(u)) {
            Err(e) => rep.fail(&format!("to_unit/panic/{}", e.class()), None, || format!("{}.to_unit({:?}) panicked {}", fmt_parts(p), u, e.msg)),
            Ok(x) => {
                let f = unit_ns(u);
                let exact_f = c as f64 / f as f64;
                let one_second = 1e9 / f as f64;
                let ur = flt::ulp(exact_f.abs().max(one_second));
                let err = flt::approx_err_ulps(x, c, f, ur);
                rep.note_max("to_unit_max_err_ulps(approx)", err);
                if !flt::within_ulps(x, c, f, ur, 8.0) {
                    rep.fail("to_unit/value", None, || format!("{}.to_unit({:?}) = {} ; exact {}/{} ; error {} ulp", fmt_parts(p), u, fmt_f64(x), c, f, err));
                }
                if c != 0 && (x < 0.0) != (c < 0) {
                    rep.fail("to_unit/sign", None, || format!("{}.to_unit({:?}) = {} for count {}", fmt_parts(p), u, fmt_f64(x), c));
                }
            }
        }
    }
}

pub fn check_monotone(rep: &mut Rep, mut v: Vec<i128>) {
    if !rep.tick() {
        return;
    }
    rep.class("out/monotone-batch");
    v.sort();
    v.dedup();
    let n = v.len();
    let r = guard(|| {
        let mut out = vec![];
        for c in &v {
            let d = mk(*c);
            out.push((d.to_seconds(), d.to_unit(Unit::Day), d.to_unit(Unit::Nanosecond), d.to_unit(Unit::Century)));
        }
        out
    });
    if let Ok(out) = r {
        for i in 1..n {
            let (a, b) = (out[i - 1], out[i]);
            if b.0 < a.0 || b.1 < a.1 || b.2 < a.2 || b.3 < a.3 {
                rep.fail("out/not-monotone", None, || format!("durations {} < {} but float views decrease: {:?} -> {:?}", v[i - 1], v[i], a, b));
                break;
            }
        }
    }
}

/// number of significant decimal digits of the exact decimal expansion of a finite non-zero double with a fractional
/// part (m odd x 2^-k = m x 5^k / 10^k: the digits of m x 5^k), estimated in floating point (only compared against 16)
pub fn decimal_digits_of(q: f64) -> u32 {
    let (mut m, mut e) = flt::decompose(q);
    m = m.abs();
    if m == 0 || e >= 0 {
        return 1;
    }
    while m % 2 == 0 && e < 0 {
        m /= 2;
        e += 1;
    }
    if e >= 0 {
        return 1;
    }
    ((m as f64).log10() + (-e) as f64 * 5f64.log10()).floor() as u32 + 1
}

pub fn check_mulf(rep: &mut Rep, d: Duration, q: f64) {
    if !rep.tick() {
        return;
    }
    let p = d.to_parts();
    let c = count(p);
    let mut nt = false;
    if p.0 < -1 {
        rep.class("mulf/below-minus-one-century");
        nt = true;
    }
    if q != 0.0 && q.abs() < f64::EPSILON {
        rep.class("mulf/tiny-q");
        nt = true;
    }
    // exact product
    let (m, e) = flt::decompose(q);
    let pm = c.checked_mul(m); // |c| < 2^69, |m| < 2^53
    let approx = c as f64 * q;
    let (lo, hi): (i128, i128); // accepted interval for the result count
    let integer_exact;
    let mut whole_fractional = false;
    match pm {
        None => {
            rep.class("mulf/skip-overflow");
            return;
        }
        Some(pm) => {
            let exact_floor: Option<i128> = if e >= 0 {
                if e < 127 && pm.unsigned_abs().leading_zeros() as i32 > e + 1 {
                    Some(pm << e)
                } else {
                    None // astronomically large
                }
            } else if -e >= 127 {
                Some(if pm < 0 { -1 } else { 0 })
            } else {
                Some(pm >> (-e)) // floor
            };
            match exact_floor {
                None => {
                    let b = if (pm < 0) == true { MIN_NS } else { MAX_NS };
                    let b = if pm == 0 { 0 } else { b };
                    lo = b;
                    hi = b;
                    integer_exact = false;
                    rep.class("mulf/saturates");
                    nt = true;
                }
                Some(fl) => {
                    let tol = 2 + (8.0 * flt::ulp(approx)).ceil() as i128;
                    integer_exact = q.fract() == 0.0 && fl.abs() < (1 << 53) && e >= 0;
                    // the real product count x q is a whole number of nanoseconds below 2^53: exact ("behaves likewise")
                    whole_fractional = !integer_exact && e < 0 && -e < 127 && (pm >> (-e)) << (-e) == pm && fl.abs() < (1 << 53);
                    if integer_exact {
                        rep.class("mulf/integer-q-exact");
                        lo = fl;
                        hi = fl;
                    } else if whole_fractional {
                        rep.class("mulf/whole-product-fractional-q");
                        nt = true;
                        lo = fl;
                        hi = fl;
                    } else {
                        lo = clamp(fl.saturating_sub(tol));
                        hi = clamp(fl.saturating_add(tol + 1));
                    }
                    if fl.abs() > MAX_NS {
                        rep.class("mulf/saturates");
                        nt = true;
                    }
                }
            }
        }
    }
    if nt {
        rep.nt(h64(&[3, p.0 as u64, p.1, q.to_bits()]));
    }
    rep.sample("mulf", || format!("{} * {} => want count in [{lo},{hi}]", fmt_parts(p), fmt_f64(q)));
    for (name, rev) in [("Duration*f64", false), ("f64*Duration", true)] {
        match guard(|| if rev { q * d } else { d * q }) {
            Err(e) => rep.fail(&format!("{name}/panic/{}", e.class()), None, || format!("{} * {} panicked: {} at {}", fmt_parts(p), fmt_f64(q), e.msg, e.loc)),
            Ok(g) => {
                let gp = g.to_parts();
                let gc = count(gp);
                if !is_canonical(gp) || gc < lo || gc > hi {
                    let mut f = if q != 0.0 && q.abs() < f64::EPSILON && gc == 0 { Some("F23-mulf-tiny-factor") } else { None };
                    // known finding F26: the factor is expanded in decimal and cut after what an f64 holds of it (about 16
                    // significant digits), so with a factor that is not a short decimal a whole product comes out exactly
                    // one nanosecond closer to zero
                    if whole_fractional && is_canonical(gp) && gc == lo - lo.signum() && decimal_digits_of(q) >= 16 {
                        f = Some("F26-mulf-long-decimal-factor");
                    }
                    rep.fail(&format!("{name}/value"), f, || format!("{} * {} = {} (count {}), want count in [{lo},{hi}] (integer-exact: {integer_exact})", fmt_parts(p), fmt_f64(q), fmt_parts(gp), gc));
                }
            }
        }
    }
}

pub fn check_compose_f64(rep: &mut Rep, sign: i8, f: [f64; 7]) {
    if !rep.tick() {
        return;
    }
    let us = [Unit::Day, Unit::Hour, Unit::Minute, Unit::Second, Unit::Millisecond, Unit::Microsecond, Unit::Nanosecond];
    let mut acc: Option<i128> = Some(0);
    for i in 0..7 {
        acc = match (acc, model_in(f[i], us[i])) {
            (Some(a), Some(t)) => Some(clamp(a + t)),
            _ => None,
        };
    }
    let want = acc.map(|a| if sign < 0 { clamp(-a) } else { a });
    // alternative reading when a partial sum leaves the range: the (clamped) terms are summed exactly and
    // saturated once at the end - the statement does not fix where the saturation of a sum of fields happens
    let want_alt: Option<i128> = {
        let mut tot: Option<i128> = Some(0);
        for i in 0..7 {
            tot = match (tot, model_in(f[i], us[i])) {
                (Some(a), Some(t)) => Some(a + t),
                _ => None,
            };
        }
        tot.map(|a| if sign < 0 { clamp(-clamp(a)) } else { clamp(a) })
    };
    rep.class("compose_f64");
    rep.sample("compose_f64", || format!("compose_f64({sign},{:?}) => want {:?}", f, want));
    match guard(|| Duration::compose_f64(sign, f[0], f[1], f[2], f[3], f[4], f[5], f[6])) {
        Err(e) => rep.fail(&format!("compose_f64/panic/{}", e.class()), None, || format!("compose_f64({sign},{:?}) panicked: {}", f, e.msg)),
        Ok(g) => {
            if let Some(w) = want {
                // The statement fixes each field's conversion, not the order in which a correct implementation
                // sums them: allow one nanosecond per field plus 8 ulp of the result (exact when every field is
                // a whole number of nanoseconds below 2^53, which any summation order gets right).
                let all_exact = (0..7).all(|i| {
                    let p = f[i] * crate::props::c18::factor_f64(us[i]);
                    p.is_finite() && p.fract() == 0.0 && p.abs() < 9007199254740992.0
                });
                let tol: i128 = if all_exact { 0 } else { 7 + (8.0 * flt::ulp(w as f64)).ceil() as i128 };
                let alt_ok = want_alt.map(|a| (count_d(g) - a).abs() <= tol).unwrap_or(false);
                if ((count_d(g) - w).abs() > tol && !alt_ok) || !is_canonical(g.to_parts()) {
                    rep.fail("compose_f64/value", None, || format!("compose_f64({sign},{:?}) = {} want count {} +- {}", f, fmt_parts(g.to_parts()), w, tol));
                }
            }
        }
    }
}

pub fn check_unit_consts(rep: &mut Rep) {
    for u in UNITS {
        if !rep.tick() {
            continue;
        }
        let f = unit_ns(u);
        let (a, b) = (u.in_seconds(), u.from_seconds());
        let (ea, eb) = (0, 0);
        if !flt::within_ulps(a, f, NS_S, flt::ulp(f as f64 / 1e9), 1.0) || !flt::within_ulps(b, NS_S, f, flt::ulp(1e9 / f as f64), 2.0) {
            rep.fail("unit-consts/value", None, || format!("{:?}: in_seconds {} from_seconds {} (errors {ea} {eb} ulp)", u, fmt_f64(a), fmt_f64(b)));
        }
    }
}

pub fn rand_f64(r: &mut Rng, u: Unit) -> f64 {
    let f = factor_f64(u);
    let x = match r.below(16) {
        0 => f64::from_bits(r.u64()),
        1 => f64::from_bits(r.below(1 << 52)), // subnormal
        2 => r.range_i64(-1_000_000, 1_000_000) as f64,
        3 => {
            let k = r.range_i64(-1_000_000, 1_000_000) as f64;
            f64::from_bits((k.to_bits() as i64 + r.range_i64(-1, 1)) as u64)
        }
        4 => r.range_i64(-100000, 100000) as f64 + 0.5,
        5 => r.range_i64(-1_000_000_000, 1_000_000_000) as f64 / *r.pick(&[10.0, 100.0, 1000.0, 1e6, 1e9]),
        6 => {
            let e = r.range_i64(-330, 308) as i32;
            let v = format!("1e{e}").parse::<f64>().unwrap();
            if r.bool() {
                v
            } else {
                -v
            }
        }
        7 | 8 => {
            // thresholds +- ulps
            let t = *r.pick(&[i64::MAX as f64 / f, MAX_NS as f64 / f, f64::MAX / f, 9007199254740992.0 / f, NPC as f64 / f, 1.0 / f, 0.5 / f, u64::MAX as f64 / f, u32::MAX as f64 / f, i128::MAX as f64 / f, 1e18 / f, 1e19 / f]);
            let t = f64::from_bits((t.to_bits() as i64 + r.range_i64(-3, 3)) as u64);
            if r.bool() {
                t
            } else {
                -t
            }
        }
        9 => *r.pick(&[0.0, -0.0, f64::INFINITY, f64::NEG_INFINITY, f64::NAN, -f64::NAN, f64::MAX, f64::MIN, f64::MIN_POSITIVE, f64::EPSILON]),
        10 | 11 => {
            // a whole number of nanoseconds below 2^53 expressed in the unit
            let n = r.range_i64(-(1 << 53), 1 << 53);
            n as f64 / f
        }
        12 => (r.f64_unit() - 0.5) * 2.0 * (MAX_NS as f64 / f) * 1.2,
        _ => {
            let mag = 10f64.powi(r.range_i64(-12, 22) as i32);
            (r.f64_unit() - 0.5) * mag
        }
    };
    x
}

pub fn run(cfg: &Cfg, rep: &mut Rep) {
    let lat = gen::dur_lattice();
    let sh = rep.shard as usize;
    let n = NSHARDS as usize;
    if sh == 0 {
        check_unit_consts(rep);
    }
    // lattice: thresholds x units
    let mut i = 0usize;
    for u in UNITS {
        if cfg.fuzz {
            break;
        }
        let f = factor_f64(u);
        // (round 11: every machine width a nanosecond count can be cast to - 2^31, 2^32, 2^62, 2^64, 2^65, 2^96, 2^127, 2^128 -
        // and the decimal 10^18, 10^19, each as "the value whose product is the threshold" +-3 ulp)
        let p2 = |k: i32| 2f64.powi(k);
        for t in [0.0, 1.0, 0.5, 1e-9, i64::MAX as f64 / f, MAX_NS as f64 / f, f64::MAX / f, 9007199254740992.0 / f, NPC as f64 / f, 1.0 / f, f64::MAX, f64::MIN_POSITIVE, 5e-324, f64::INFINITY, f64::NAN, p2(31) / f, p2(32) / f, p2(62) / f, p2(64) / f, p2(65) / f, p2(96) / f, p2(127) / f, p2(128) / f, 1e18 / f, 1e19 / f, 2.0 * NPC as f64 / f, 3.0 * NPC as f64 / f] {
            for d in -3i64..=3 {
                for sgn in [1.0, -1.0] {
                    i += 1;
                    if i % n != sh {
                        continue;
                    }
                    let x = if t.is_finite() { f64::from_bits((t.to_bits() as i64 + d).max(0) as u64) } else { t };
                    check_in(rep, x * sgn, u);
                }
            }
        }
    }
    for (j, &c) in lat.iter().enumerate() {
        if j % n == sh && !cfg.fuzz {
            check_out(rep, mk(c));
        }
    }
    let mut r = Rng::new(cfg.seed, 0x1800 + sh as u64);
    let nrand = cfg.budget(8_000_000);
    let ten_ky = 100 * NPC;
    for k in 0..nrand {
        let k = cfg.k(k, &mut r);
        match k % 4 {
            0 | 1 => {
                let u = *r.pick(&UNITS);
                let x = rand_f64(&mut r, u);
                check_in(rep, x, u);
            }
            2 => {
                check_out(rep, mk(gen::rand_count(&mut r, &lat)));
                if k % 1024 == 2 {
                    let mut v = vec![];
                    let base = gen::rand_count(&mut r, &lat);
                    for _ in 0..200 {
                        v.push(match r.below(3) {
                            0 => gen::rand_count(&mut r, &lat),
                            1 => clamp(base + r.range_i64(-1000, 1000) as i128),
                            _ => clamp(base + r.range_i64(-2, 2) as i128 * NS_S + r.range_i64(-3, 3) as i128),
                        });
                    }
                    check_monotone(rep, v);
                }
                if k % 64 == 2 {
                    let mut f = [0f64; 7];
                    for x in f.iter_mut() {
                        *x = if r.chance(1, 3) { 0.0 } else { rand_f64(&mut r, Unit::Nanosecond) % 1e7 };
                    }
                    if r.chance(1, 50) {
                        f[r.below(7) as usize] = *r.pick(&[f64::NAN, f64::INFINITY, f64::NEG_INFINITY, 1e300]);
                    }
                    check_compose_f64(rep, *r.pick(&[-1i8, 0, 1]), f);
                }
            }
            _ => {
                let d = mk(gen::rand_count_within(&mut r, ten_ky));
                let q = match r.below(12) {
                    0 => r.range_i64(-1000, 1000) as f64,
                    1 => r.range_i64(-1000, 1000) as f64 + *r.pick(&[0.5, 0.25, 0.1, 0.2, 0.125, 0.001]),
                    2 => r.f64_unit(),
                    3 => r.f64_unit() * 1e-6,
                    4 => f64::from_bits(r.u64()),
                    5 => *r.pick(&[1e-17, -1e-17, 1e-16, 2.2e-16, 1e-300, 5e-324, 1e-20, 3e-16, f64::EPSILON, f64::EPSILON * 0.999]),
                    6 => {
                        let e = r.range_i64(-40, 40) as i32;
                        (r.f64_unit() + 0.1) * 10f64.powi(e) * if r.bool() { 1.0 } else { -1.0 }
                    }
                    7 => {
                        // aim at the bounds
                        let c = count_d(d);
                        if c == 0 {
                            1.0
                        } else {
                            (MAX_NS as f64 / c as f64) * (1.0 + (r.f64_unit() - 0.5) * 1e-3)
                        }
                    }
                    8 => r.range_i64(-(1 << 53), 1 << 53) as f64,
                    9 if r.bool() => {
                        // dyadic factor i / 2^k on a duration that is a multiple of 2^k ns: the product is a whole number
                        let k = 1 + r.below(62) as u32;
                        let j = r.range_i64(1, 1 << 12) as i128;
                        let i2 = (2 * r.range_i64(0, 1 << 9) + 1) as f64;
                        let mut dd = j << k;
                        while dd > ten_ky {
                            dd >>= 1; // duration x float is quantified up to 10 000 years
                        }
                        let dd = if r.bool() { -dd } else { dd };
                        let q2 = i2 * 2f64.powi(-(k as i32)) * if r.chance(1, 4) { -1.0 } else { 1.0 };
                        check_mulf(rep, mk(dd), q2);
                        1.0 / r.range_i64(1, 1000) as f64
                    }
                    9 => 1.0 / r.range_i64(1, 1000) as f64,
                    _ => (r.f64_unit() - 0.5) * 2000.0,
                };
                if q.is_finite() {
                    check_mulf(rep, d, q);
                }
            }
        }
    }
}
