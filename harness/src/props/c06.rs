//! C06 UTC <-> TAI follows the IERS leap-second table exactly, in both directions.
use crate::core::*;
use crate::gen;
use crate::model::dur::*;
use crate::model::leap;
use crate::model::scale::*;
use crate::props::c05::ep;
use hifitime::leap_seconds::{LatestLeapSeconds, LeapSecond, LeapSecondsFile};
use hifitime::{Epoch, TimeScale};

pub fn meta() -> Meta {
    Meta {
        rule: "events = (table) iteration forward / reverse / by index of LatestLeapSeconds and of LeapSecondsFile::from_path on the shipped list and on synthesized IERS-format files, compared entry by entry with the embedded IERS announcements, the shipped leap-seconds.list and the NAIF kernel's DELTA_AT block (all parsed by the harness); (conversion) UTC->TAI via to_time_scale / to_tai_duration, TAI->UTC of every image, TAI->UTC monotonicity over sorted batches, leap_seconds(true|false) / leap_seconds_iers / leap_seconds_with(file provider). Expected: M-LEAP (offset 0 before 1972-01-01, then the announced offsets). Generation: every instant ts_i +- {0..40} s +- {0,1,250,499999999,999999999} ns for the 28 entries (seed independent), random instants 1800-2200, pre-1972 (SOFA era) and post-2017 strata. Non-trivial = instant within 41 s of an entry, within 1 us before an entry, in 1960-1972, after the last entry, TAI image inside the dAT window; distinct = distinct UTC/TAI count hashes among those. Round 6: every synthesized file also with CRLF line endings; files with entries in 2037, 2041, 2200 and 9000 (timestamps beyond 2^32 s) and in the block layout of the shipped list; all provider calls guarded. Rounds 7-9: files of 4 KiB - 1 MiB whose header puts each power-of-two offset inside the last data line / inside the table / before it, 100 KB of notes after the table, a 200 KB comment line; one path rewritten six times and loaded after each write; about sixty std consumers of the provider's iterator (built-in table and every file) from nine positions in either single direction, incl. copies taken on the way (front/back mixing left open). Round 10: files of 33-128 entries; eight unusual layouts (Err or exactly the table in the file); mirror images of the table instants about 1900.",
        assumptions: &["ground truth = the 28 IERS announcements embedded in the harness; the shipped list file and NAIF kernel must agree with it (checked every run)"],
        mandatory: &["table/builtin", "table/file-shipped", "table/file-synth", "utc/within-41s-of-entry", "utc/last-microsecond-before-entry", "utc/sofa-era-1960-1972", "utc/after-last-entry", "tai/monotone-batch", "tai/round-trip", "provider/file-answers"],
        thorough_scale: 40,
        exhaustive_part: "dense +-40 s neighbourhood lattice of all 28 entries in both directions",
    }
}

fn ls_eq(a: &LeapSecond, ts: i64, o: i64, iers: bool) -> bool {
    a.timestamp_tai_s == ts as f64 && a.delta_at == o as f64 && a.announced_by_iers == iers
}

fn check_tables(rep: &mut Rep, cfg: &Cfg, tab: &[(i64, i64)]) {
    if !rep.tick() {
        return;
    }
    rep.class("table/builtin");
    // ground-truth sources must agree (else: the named source is reported)
    let list_path = cfg.repo_dir.join("data/leap-seconds.list");
    match leap::parse_list_file(&list_path) {
        Ok(l) => {
            if l != tab {
                rep.fail("table/list-file-differs-from-iers", None, || format!("{} (harness parser) differs from the embedded IERS announcements: {:?}", list_path.display(), l));
            }
        }
        Err(e) => rep.fail("table/list-file-unreadable", None, || e),
    }
    match leap::parse_naif(&cfg.repo_dir.join("naif0012.txt")) {
        Ok(k) => {
            if k.delta_at != tab {
                rep.fail("table/naif-kernel-differs-from-iers", None, || format!("naif0012.txt DELTA_AT differs from the embedded IERS announcements: {:?}", k.delta_at));
            }
        }
        Err(e) => rep.fail("table/naif-kernel-unreadable", None, || e),
    }
    // built-in table
    match guard(|| {
        let fwd: Vec<LeapSecond> = LatestLeapSeconds::default().collect();
        let rev: Vec<LeapSecond> = LatestLeapSeconds::default().rev().collect();
        let p = LatestLeapSeconds::default();
        let idx: Vec<LeapSecond> = (0..fwd.len()).map(|i| p[i]).collect();
        (fwd, rev, idx)
    }) {
        Err(p) => rep.fail(&format!("table/panic/{}", p.class()), None, || format!("iterating LatestLeapSeconds panicked: {}", p.msg)),
        Ok((fwd, mut rev, idx)) => {
            rev.reverse();
            if fwd != rev || fwd != idx {
                rep.fail("table/iteration-orders-disagree", None, || "forward / reverse / index iteration of LatestLeapSeconds disagree".into());
            }
            let iers: Vec<&LeapSecond> = fwd.iter().filter(|l| l.announced_by_iers).collect();
            if iers.len() != tab.len() || !iers.iter().zip(tab.iter()).all(|(a, b)| ls_eq(a, b.0, b.1, true)) {
                rep.fail("table/builtin-differs-from-iers", None, || format!("IERS-flagged entries of the built-in table: {:?} ; want {:?}", iers, tab));
            }
            // the iterator's adaptors after k forward steps see exactly the entries that are left (front / back mixing is
            // left open: the implementation shares one cursor)
            for k in [0usize, 1, 2, 14, fwd.len() / 2, fwd.len() - 1, fwd.len()] {
                let r = guard(|| {
                    let mk_it = || {
                        let mut it = LatestLeapSeconds::default();
                        for _ in 0..k {
                            let _ = it.next();
                        }
                        it
                    };
                    (mk_it().last(), mk_it().count(), mk_it().nth(1), mk_it().skip(2).next(), mk_it().collect::<Vec<_>>(), LatestLeapSeconds::default().skip(k).last(), LatestLeapSeconds::default().step_by(k.max(1)).count())
                });
                match r {
                    Err(p) => rep.fail(&format!("table/panic/{}", p.class()), None, || format!("LatestLeapSeconds adaptors after {k} steps panicked: {}", p.msg)),
                    Ok((last, count, nth1, skip2, rest, skiplast, stepcount)) => {
                        let left = &fwd[k.min(fwd.len())..];
                        if last != left.last().copied() || count != left.len() || nth1 != left.get(1).copied() || skip2 != left.get(2).copied() || rest != left || skiplast != left.last().copied() || stepcount != (fwd.len() + k.max(1) - 1) / k.max(1) {
                            rep.fail("table/adaptor-after-partial-iteration", None, || format!("after {k} next() calls: last {:?} count {} nth(1) {:?} skip(2) {:?} collect {} items skip({k}).last {:?}; {} entries are left, the last is {:?}", last, count, nth1, skip2, rest.len(), skiplast, left.len(), left.last()));
                        }
                    }
                }
            }
            check_provider_iter(rep, &LatestLeapSeconds::default, &fwd, "LatestLeapSeconds");
            for w in fwd.windows(2) {
                if !(w[0].timestamp_tai_s < w[1].timestamp_tai_s) {
                    rep.fail("table/not-sorted", None, || format!("{:?} then {:?}", w[0], w[1]));
                }
            }
            for l in fwd.iter().filter(|l| !l.announced_by_iers) {
                if l.timestamp_tai_s >= tab[0].0 as f64 {
                    rep.fail("table/non-iers-entry-after-1972", None, || format!("{:?}", l));
                }
            }
        }
    }
}

/// A leap-second provider is an iterator over its table: whatever std consumer reads it, from whatever position, in
/// either single direction, sees exactly the entries that are left - and a copy taken on the way continues from where the
/// original stands without disturbing it. (Mixing `next` and `next_back` on one value is left open: the implementation
/// shares one cursor between the two ends.) `truth` is the table as a plain forward read of a fresh provider gave it.
fn check_provider_iter<P>(rep: &mut Rep, mk: &dyn Fn() -> P, truth: &[LeapSecond], name: &str)
where
    P: Iterator<Item = LeapSecond> + DoubleEndedIterator + Clone,
{
    let n = truth.len();
    let mut ks = vec![0usize, 1, 2, 3, n / 2, n.saturating_sub(2), n.saturating_sub(1), n, n + 1];
    ks.sort_unstable();
    ks.dedup();
    for &k in &ks {
        if !rep.tick() {
            continue;
        }
        rep.class("table/iterator-consumers");
        let left: Vec<LeapSecond> = truth[k.min(n)..].to_vec();
        let mut back: Vec<LeapSecond> = truth[..n - k.min(n)].to_vec();
        back.reverse();
        let r = guard(|| {
            let fwd = || {
                let mut it = mk();
                for _ in 0..k {
                    let _ = it.next();
                }
                it
            };
            let bwd = || {
                let mut it = mk().rev();
                for _ in 0..k {
                    let _ = it.next();
                }
                it
            };
            let bad: std::cell::RefCell<Vec<String>> = std::cell::RefCell::new(vec![]);
            let want_eq = |what: &str, got: Vec<LeapSecond>, want: Vec<LeapSecond>| {
                if got != want {
                    bad.borrow_mut().push(format!("{what}: {} items (first {:?}) want {} (first {:?})", got.len(), got.first().map(|l| l.delta_at), want.len(), want.first().map(|l| l.delta_at)));
                }
            };
            // forward
            want_eq("collect", fwd().collect(), left.clone());
            want_eq("last", fwd().last().into_iter().collect(), left.last().copied().into_iter().collect());
            want_eq("count", vec![], if fwd().count() == left.len() { vec![] } else { left.clone() });
            for j in [0usize, 1, 2, 5] {
                want_eq(&format!("nth({j})"), fwd().nth(j).into_iter().collect(), left.get(j).copied().into_iter().collect());
                want_eq(&format!("skip({j})"), fwd().skip(j).collect(), left.iter().skip(j).copied().collect());
                want_eq(&format!("step_by({})", j + 1), fwd().step_by(j + 1).collect(), left.iter().step_by(j + 1).copied().collect());
                want_eq(&format!("take({j})"), fwd().take(j).collect(), left.iter().take(j).copied().collect());
                let mut it = fwd();
                let a = it.nth(j);
                let b = it.nth(j);
                want_eq(&format!("nth({j}) twice"), a.into_iter().chain(b).collect(), left.get(j).copied().into_iter().chain(left.get(2 * j + 1).copied()).collect());
            }
            want_eq("fold", fwd().fold(vec![], |mut v, l| { v.push(l); v }), left.clone());
            want_eq("filter", fwd().filter(|l| l.announced_by_iers).collect(), left.iter().filter(|l| l.announced_by_iers).copied().collect());
            want_eq("find", fwd().find(|l| l.delta_at > 20.0).into_iter().collect(), left.iter().find(|l| l.delta_at > 20.0).copied().into_iter().collect());
            want_eq("max_by", fwd().max_by(|a, b| a.delta_at.total_cmp(&b.delta_at)).into_iter().collect(), left.iter().copied().max_by(|a, b| a.delta_at.total_cmp(&b.delta_at)).into_iter().collect());
            want_eq("min_by", fwd().min_by(|a, b| a.delta_at.total_cmp(&b.delta_at)).into_iter().collect(), left.iter().copied().min_by(|a, b| a.delta_at.total_cmp(&b.delta_at)).into_iter().collect());
            want_eq("zip", fwd().zip(0..).map(|(l, _)| l).collect(), left.clone());
            want_eq("chain", fwd().chain(fwd()).collect(), left.iter().chain(left.iter()).copied().collect());
            want_eq("peekable", { let mut p = fwd().peekable(); let _ = p.peek(); p.collect() }, left.clone());
            want_eq("fuse past the end", { let mut f = fwd().fuse(); let v: Vec<_> = f.by_ref().collect(); let _ = f.next(); let mut v2 = v; v2.extend(f.next()); v2 }, left.clone());
            want_eq("by_ref().take(2) then the rest", { let mut it = fwd(); let mut v: Vec<_> = it.by_ref().take(2).collect(); v.extend(it); v }, left.clone());
            let (lo, hi) = fwd().size_hint();
            if lo > left.len() || hi.map_or(false, |h| h < left.len()) {
                bad.borrow_mut().push(format!("size_hint ({lo}, {:?}) with {} items left", hi, left.len()));
            }
            // a copy taken on the way
            {
                let mut it = fwd();
                let c1 = it.clone();
                let first = it.next();
                let c2 = it.clone();
                want_eq("clone().collect()", c1.collect(), left.clone());
                want_eq("clone() after one more step", c2.collect(), left.iter().skip(1).copied().collect());
                want_eq("the original after its copies were read", first.into_iter().chain(it).collect(), left.clone());
                want_eq("clone().next() as a peek", { let it = fwd(); let p = it.clone().next(); p.into_iter().chain(it).collect() }, left.first().copied().into_iter().chain(left.iter().copied()).collect());
            }
            // one direction only: from the newest entry backwards
            want_eq("rev().collect", bwd().collect(), back.clone());
            want_eq("rev().last", bwd().last().into_iter().collect(), back.last().copied().into_iter().collect());
            want_eq("rev().count", vec![], if bwd().count() == back.len() { vec![] } else { back.clone() });
            for j in [0usize, 1, 2, 5] {
                want_eq(&format!("rev().nth({j})"), bwd().nth(j).into_iter().collect(), back.get(j).copied().into_iter().collect());
                want_eq(&format!("rev().skip({j})"), bwd().skip(j).collect(), back.iter().skip(j).copied().collect());
                want_eq(&format!("rev().step_by({})", j + 1), bwd().step_by(j + 1).collect(), back.iter().step_by(j + 1).copied().collect());
                let mut it = bwd();
                let a = it.nth(j);
                let b = it.nth(j);
                want_eq(&format!("rev().nth({j}) twice"), a.into_iter().chain(b).collect(), back.get(j).copied().into_iter().chain(back.get(2 * j + 1).copied()).collect());
                // the same through the DoubleEndedIterator methods of the provider itself
                let mut p = mk();
                for _ in 0..k {
                    let _ = p.next_back();
                }
                let a = p.nth_back(j);
                let b = p.nth_back(j);
                want_eq(&format!("nth_back({j}) twice"), a.into_iter().chain(b).collect(), back.get(j).copied().into_iter().chain(back.get(2 * j + 1).copied()).collect());
            }
            want_eq("rfold", { let mut p = mk(); for _ in 0..k { let _ = p.next_back(); } p.rfold(vec![], |mut v, l| { v.push(l); v }) }, back.clone());
            want_eq("rfind", { let mut p = mk(); for _ in 0..k { let _ = p.next_back(); } p.rfind(|l| l.delta_at < 20.0).into_iter().collect() }, back.iter().find(|l| l.delta_at < 20.0).copied().into_iter().collect());
            want_eq("rev().clone()", { let it = bwd(); let c = it.clone(); let _ = it.count(); c.collect() }, back.clone());
            bad.into_inner()
        });
        match r {
            Err(p) => rep.fail(&format!("table/panic/{}", p.class()), None, || format!("{name}: consumers of the provider's iterator after {k} steps panicked: {} at {}", p.msg, p.loc)),
            Ok(bad) => {
                if !bad.is_empty() {
                    rep.fail("table/iterator-consumer", None, || format!("{name} after {k} steps: {}", bad.join("; ")));
                }
            }
        }
    }
}

fn check_file(rep: &mut Rep, path: &std::path::Path, want: &[(i64, i64)], class: &str) -> Option<LeapSecondsFile> {
    if !rep.tick() {
        return None;
    }
    rep.class(class);
    rep.nt(hstr(&path.display().to_string()));
    rep.sample(class, || format!("LeapSecondsFile::from_path({}) => {} entries", path.display(), want.len()));
    match guard(|| LeapSecondsFile::from_path(path)) {
        Err(p) => {
            rep.fail(&format!("file/panic/{}", p.class()), None, || format!("from_path({}) panicked: {}", path.display(), p.msg));
            None
        }
        Ok(Err(e)) => {
            rep.fail("file/err", None, || format!("from_path({}) = Err({:?})", path.display(), e));
            None
        }
        Ok(Ok(f)) => {
            // (every call into the provider is guarded: a panic while iterating is an answer that differs, not a harness failure)
            let (fwd, mut rev, idx) = match guard(|| {
                let fwd: Vec<LeapSecond> = f.clone().collect();
                let rev: Vec<LeapSecond> = f.clone().rev().collect();
                let idx: Vec<LeapSecond> = (0..fwd.len()).map(|i| f[i]).collect();
                (fwd, rev, idx)
            }) {
                Ok(x) => x,
                Err(p) => {
                    rep.fail(&format!("file/panic/{}", p.class()), None, || format!("iterating the provider of {} panicked: {} at {}", path.display(), p.msg, p.loc));
                    return None;
                }
            };
            rev.reverse();
            if fwd != rev || fwd != idx {
                rep.fail("file/iteration-orders-disagree", None, || format!("{}", path.display()));
            }
            for k in [0usize, 1, fwd.len() / 2, fwd.len()] {
                let left = &fwd[k.min(fwd.len())..];
                let r = guard(|| {
                    let mk_it = || {
                        let mut it = f.clone();
                        for _ in 0..k {
                            let _ = it.next();
                        }
                        it
                    };
                    (mk_it().last(), mk_it().count(), mk_it().nth(1))
                });
                match r {
                    Err(p) => rep.fail(&format!("file/panic/{}", p.class()), None, || format!("adaptors of the provider of {} after {k} next() calls panicked: {}", path.display(), p.msg)),
                    Ok((last, count, nth1)) => {
                        if last != left.last().copied() || count != left.len() || nth1 != left.get(1).copied() {
                            rep.fail("file/adaptor-after-partial-iteration", None, || format!("{} after {k} next() calls", path.display()));
                        }
                    }
                }
            }
            if fwd == idx {
                check_provider_iter(rep, &|| f.clone(), &fwd, &format!("provider of {}", path.display()));
            }
            if fwd.len() != want.len() || !fwd.iter().zip(want.iter()).all(|(a, b)| ls_eq(a, b.0, b.1, true)) {
                rep.fail("file/entries", None, || format!("from_path({}) yields {:?} ; want {:?}", path.display(), fwd, want));
            }
            Some(f)
        }
    }
}

/// one UTC instant: UTC->TAI, back, accessors
pub fn check_utc(rep: &mut Rep, w: &World, u: i128, file: Option<&LeapSecondsFile>) {
    if !rep.tick() {
        return;
    }
    let off = leap::offset_at_utc(&w.leap, u);
    let t = u + off as i128 * NS_S;
    let mut nt = false;
    for &(ts, _) in &w.leap {
        let d = u - ts as i128 * NS_S;
        if d.abs() <= 41 * NS_S {
            rep.class("utc/within-41s-of-entry");
            nt = true;
            if d < 0 && d >= -1000 {
                rep.class("utc/last-microsecond-before-entry");
            }
        }
    }
    let y1960 = crate::model::cal::days_from_1900(1960, 1, 1) as i128 * NS_D;
    if u >= y1960 && u < w.leap[0].0 as i128 * NS_S {
        rep.class("utc/sofa-era-1960-1972");
        nt = true;
    }
    if u >= w.leap[w.leap.len() - 1].0 as i128 * NS_S {
        rep.class("utc/after-last-entry");
        nt = true;
    }
    if w.in_f12b_window(t) {
        rep.class("tai/image-in-dAT-window");
        nt = true;
    }
    if nt {
        rep.nt(h64(&[1, u as u64, (u >> 64) as u64]));
    }
    rep.log_event("utc2tai", || format!("\"u\":\"{}\",\"want\":\"{}\"", u, t));
    rep.sample("utc", || format!("UTC count {} ns => offset {} s, TAI count {}", u, off, t));
    let e = ep(u, TimeScale::UTC);
    if let Ok(c2) = guard(|| Epoch::from_utc_duration(mk(u))) {
        if c2.time_scale != TimeScale::UTC || c2.duration.to_parts() != e.duration.to_parts() {
            rep.fail("utc/ctor", None, || format!("from_utc_duration({u}) = ({}, {:?})", count_d(c2.duration), c2.time_scale));
        }
    }
    // a UTC epoch asked for its own UTC reading: the identity, through every accessor
    match guard(|| (e.to_utc_duration(), e.to_time_scale(TimeScale::UTC), e.to_duration_in_time_scale(TimeScale::UTC), e.to_utc_seconds(), e.to_utc_days())) {
        Err(p) => rep.fail(&format!("utc-identity/panic/{}", p.class()), None, || format!("UTC {} own-scale accessors panicked: {}", u, p.msg)),
        Ok((d1, e2, d3, secs, days)) => {
            if count_d(d1) != u || count_d(e2.duration) != u || e2.time_scale != TimeScale::UTC || count_d(d3) != u {
                rep.fail("utc-identity/value", None, || format!("UTC count {}: to_utc_duration {} to_time_scale(UTC) {} to_duration_in_time_scale(UTC) {}", u, count_d(d1), count_d(e2.duration), count_d(d3)));
            }
            let ur = |x: f64, unit: i128| crate::model::flt::ulp(x.abs().max(NS_S as f64 / unit as f64));
            if !crate::model::flt::within_ulps(secs, u, NS_S, ur(secs, NS_S), 8.0) || !crate::model::flt::within_ulps(days, u, NS_D, ur(days, NS_D), 8.0) {
                rep.fail("utc-identity/float", None, || format!("UTC count {}: to_utc_seconds {} to_utc_days {}", u, secs, days));
            }
        }
    }
    match guard(|| {
        let a = e.to_time_scale(TimeScale::TAI);
        let b = e.to_tai_duration();
        let back = a.to_time_scale(TimeScale::UTC);
        let back2 = ep(count_d(b), TimeScale::TAI).to_utc_duration();
        (a, b, back, back2)
    }) {
        Err(p) => rep.fail(&format!("utc-to-tai/panic/{}", p.class()), None, || format!("UTC {} -> TAI panicked: {}", u, p.msg)),
        Ok((a, b, back, back2)) => {
            if a.time_scale != TimeScale::TAI || count_d(a.duration) != t || count_d(b) != t {
                rep.fail("utc-to-tai/value", None, || format!("UTC count {} -> TAI {} / {} ; want {} (offset {} s)", u, count_d(a.duration), count_d(b), t, off));
            } else {
                rep.class("tai/round-trip");
                let g = count_d(back.duration);
                if back.time_scale != TimeScale::UTC || g != u || count_d(back2) != u {
                    let f = if w.in_f12b_window(t) && g == leap::f12b_utc_from_tai(&w.leap, t) && count_d(back2) == g { Some("F12b-tai-to-utc-frame") } else { None };
                    rep.fail("utc-tai-utc/round-trip", f, || format!("UTC count {} -> TAI {} -> UTC {} (and {})", u, t, g, count_d(back2)));
                }
            }
        }
    }
    // accessors on the UTC epoch and its TAI image
    if rep.tick() {
        let et = ep(t, TimeScale::TAI);
        match guard(|| {
            let fa = file.map(|f| (e.leap_seconds_with(true, f.clone()), et.leap_seconds_with(true, f.clone())));
            (e.leap_seconds(true), e.leap_seconds_iers(), e.leap_seconds(false), et.leap_seconds(true), et.leap_seconds_iers(), fa)
        }) {
            Err(p) => rep.fail(&format!("accessor/panic/{}", p.class()), None, || format!("leap_seconds accessors at UTC {} panicked: {}", u, p.msg)),
            Ok((a, ai, sofa, b, bi, fa)) => {
                // the accessor answers for the instant; F12b frame: it looks the TAI count up in the UTC-frame table
                let dev = leap::offset_at_utc(&w.leap, t);
                let exp = |x: Option<f64>| x.unwrap_or(0.0);
                for (name, got, goti) in [("utc-epoch", a, ai), ("tai-epoch", b, bi)] {
                    if exp(got) != goti as f64 {
                        rep.fail("accessor/iers-variants-disagree", None, || format!("{name} at UTC {}: leap_seconds(true) {:?} leap_seconds_iers {}", u, got, goti));
                    }
                    if goti as i64 != off {
                        let f = if w.in_f12b_window(t) && goti as i64 == dev { Some("F12b-tai-to-utc-frame") } else { None };
                        rep.fail("accessor/value", f, || format!("{name} at UTC count {} (TAI {}): leap_seconds_iers = {} want {}", u, t, goti, off));
                    }
                }
                if u >= w.leap[0].0 as i128 * NS_S + 60 * NS_S {
                    if sofa != a {
                        rep.fail("accessor/sofa-flag-changes-post-1972", None, || format!("UTC {}: leap_seconds(false) {:?} vs leap_seconds(true) {:?}", u, sofa, a));
                    }
                }
                // the same instant held in other uniform scales: the offset in force is a property of the instant
                for hs in [TimeScale::TT, TimeScale::GPST, TimeScale::BDT, TimeScale::GST, TimeScale::QZSST] {
                    let eh = ep(t - zero_tai_ns(hs), hs);
                    if let Ok((x, xi)) = guard(|| (eh.leap_seconds(true), eh.leap_seconds_iers())) {
                        if x != b || xi != bi {
                            rep.fail("accessor/depends-on-holder-scale", None, || format!("TAI instant {} held in {:?}: leap_seconds {:?} / {} but held in TAI {:?} / {}", t, hs, x, xi, b, bi));
                        }
                    }
                }
                if let Some((f1, f2)) = fa {
                    rep.class("provider/file-answers");
                    if f1 != a || f2 != b {
                        rep.fail("provider/file-differs-from-builtin", None, || format!("UTC {}: file provider {:?}/{:?} built-in {:?}/{:?}", u, f1, f2, a, b));
                    }
                }
            }
        }
    }
}

/// TAI->UTC weakly monotone on a sorted batch
pub fn check_monotone(rep: &mut Rep, w: &World, mut ts: Vec<i128>) {
    if !rep.tick() {
        return;
    }
    rep.class("tai/monotone-batch");
    ts.sort();
    ts.dedup();
    let r = guard(|| ts.iter().map(|t| count_d(ep(*t, TimeScale::TAI).to_utc_duration())).collect::<Vec<i128>>());
    match r {
        Err(p) => rep.fail(&format!("tai-to-utc/panic/{}", p.class()), None, || format!("TAI->UTC panicked: {}", p.msg)),
        Ok(us) => {
            for i in 1..ts.len() {
                if us[i] < us[i - 1] {
                    let f = if us[i] == leap::f12b_utc_from_tai(&w.leap, ts[i]) && us[i - 1] == leap::f12b_utc_from_tai(&w.leap, ts[i - 1]) && w.in_f12b_window(ts[i]) { Some("F12b-tai-to-utc-frame") } else { None };
                    rep.fail("tai-to-utc/goes-backwards", f, || format!("TAI {} -> UTC {} but later TAI {} -> earlier UTC {}", ts[i - 1], us[i - 1], ts[i], us[i]));
                }
            }
            // strictly increasing UTC->TAI on the same batch read as UTC counts
            let r2 = guard(|| ts.iter().map(|t| count_d(ep(*t, TimeScale::UTC).to_tai_duration())).collect::<Vec<i128>>());
            if let Ok(tt) = r2 {
                for i in 1..ts.len() {
                    if tt[i] <= tt[i - 1] {
                        rep.fail("utc-to-tai/not-strictly-increasing", None, || format!("UTC {} -> TAI {} ; UTC {} -> TAI {}", ts[i - 1], tt[i - 1], ts[i], tt[i]));
                    }
                }
            }
        }
    }
}

fn synth_files(cfg: &Cfg, tab: &[(i64, i64)]) -> Vec<(std::path::PathBuf, Vec<(i64, i64)>)> {
    let dir = cfg.verif_dir.join("harness").join("target").join("synth-leap");
    let _ = std::fs::create_dir_all(&dir);
    let mut out = vec![];
    let mut mk = |name: &str, body: String, want: Vec<(i64, i64)>| {
        // every file in both line-ending conventions (a checkout on another platform rewrites them)
        for (tag, text) in [("", body.clone()), ("-crlf", body.replace('\n', "\r\n"))] {
            let p = dir.join(format!("{}{}-{}.list", name, tag, cfg.seed));
            if std::fs::write(&p, text).is_ok() {
                out.push((p, want.clone()));
            }
        }
    };
    let line = |t: &(i64, i64), sep: &str, tail: &str| format!("{}{}{}{}\n", t.0, sep, t.1, tail);
    // 1. comments, blank lines, tabs, trailing columns
    let mut b = String::from("#\tcomment header\n#$\t 3676924800\n\n#@\t3928521600\n");
    for t in tab {
        b.push_str(&line(t, "\t", "\t# 1 Jan 1972 trailing comment"));
        b.push('\n');
    }
    b.push_str("#h\tdeadbeef\n");
    mk("comments", b, tab.to_vec());
    // 2. space separated, CRLF-free, no trailing newline at the end
    let mut b = String::new();
    for t in tab {
        b.push_str(&line(t, "   ", ""));
    }
    mk("spaces", b.trim_end().to_string(), tab.to_vec());
    // 3. truncated table (first 10 entries)
    let mut b = String::from("# truncated\n");
    for t in &tab[..10] {
        b.push_str(&line(t, "\t", ""));
    }
    mk("truncated", b, tab[..10].to_vec());
    // 4. extra future entry
    let mut ext = tab.to_vec();
    ext.push((crate::model::cal::days_from_1900(2031, 1, 1) * 86400, 38));
    let mut b = String::new();
    for t in &ext {
        b.push_str(&line(t, "\t", "\t# x"));
    }
    mk("future", b, ext);
    // 4b. future entries beyond the 32-bit limits of the timestamp (2^31 s after 1900 = 1968, 2^32 s = 7 Feb 2036) and far beyond
    let mut ext = tab.to_vec();
    for (k, y) in [2031i64, 2037, 2041, 2200, 9000].into_iter().enumerate() {
        ext.push((crate::model::cal::days_from_1900(y, if k % 2 == 0 { 1 } else { 7 }, 1) * 86400, 38 + k as i64));
    }
    let mut b = String::from("#\tentries announced after this harness was written\n\n");
    for t in &ext {
        b.push_str(&line(t, "\t", "\t# x"));
    }
    b.push('\n');
    mk("far-future", b, ext);
    // 4c. the shipped layout: header comments, blank-free table, '#h' checksum line last, plus blank lines between the blocks
    let mut b = String::from("#\tIn the following text, the symbol '#' introduces\n#\ta comment\n#\n\n#$\t 3676924800\n#\n\n#@\t3928521600\n#\n\n");
    for t in tab {
        b.push_str(&line(t, "\t", "\t# 1 Jan 1972"));
    }
    b.push_str("\n#\tthe following special comment contains the hash\n#h\t16edd0f0 3666784f 37db6bdd e74ced87 59af48f1\n\n");
    mk("blocks", b, tab.to_vec());
    // 4d. long files: the comment sections are free-form, so a list that keeps its announcement texts is tens of kilobytes long.
    // A header sized so that a power-of-two byte offset (a read buffer, a "sanity" length limit) falls inside the last data
    // line, inside the table, or before it; notes after the table; one very long comment line
    for b_off in [4096usize, 8192, 16_384, 32_768, 65_536, 1 << 20] {
        let mut table = String::new();
        for t in tab {
            table.push_str(&line(t, "\t", "\t# entry"));
        }
        let last_len = line(tab.last().unwrap(), "\t", "\t# entry").len();
        for (tag, at) in [("last", table.len() - last_len + 12), ("mid", table.len() / 2), ("before", 0usize)] {
            if b_off < at + 64 {
                continue;
            }
            // the header ends `at` bytes of table before offset b_off
            let mut h = String::from("#\tBulletin C texts kept for reference\n#$\t 3676924800\n#@\t3928521600\n");
            let target = b_off - at + if tag == "before" { 200 } else { 0 };
            while h.len() + 80 < target {
                h.push_str("#\tNo leap second will be introduced at the end of this period; UTC-TAI is unchanged.\n");
            }
            while h.len() + 2 < target {
                h.push_str("#\n");
            }
            mk(&format!("long-{tag}-{b_off}"), format!("{h}{table}#h\tdeadbeef\n"), tab.to_vec());
        }
    }
    {
        let mut b = String::new();
        for t in tab {
            b.push_str(&line(t, "\t", ""));
        }
        let notes: String = (0..1500).map(|i| format!("#\tnote {i}: 3692217600\t99 is quoted in a comment and is not an entry\n")).collect();
        mk("long-notes-after", format!("{b}{notes}"), tab.to_vec());
        mk("long-line", format!("#{}\n{b}", "x".repeat(200_000)), tab.to_vec());
    }
    // 4e. many entries: the table keeps growing (one entry a year until 2130: 128 entries), a fixed-size buffer does not
    let mut ext = tab.to_vec();
    for (k, y) in (2031i64..=2130).enumerate() {
        ext.push((crate::model::cal::days_from_1900(y, if k % 2 == 0 { 1 } else { 7 }, 1) * 86400, 38 + k as i64));
    }
    for n in [33usize, 63, 64, 65, 70, 128] {
        let mut b = String::from("#\tmany entries\n");
        for t in &ext[..n] {
            b.push_str(&line(t, "\t", "\t# x"));
        }
        mk(&format!("many-{n}"), b, ext[..n].to_vec());
    }
    // 5. empty table with comments only
    mk("empty", "# nothing here\n\n#\n".to_string(), vec![]);
    out
}

pub fn run(cfg: &Cfg, rep: &mut Rep) {
    let sh = rep.shard as usize;
    let n = NSHARDS as usize;
    let w = World::new(crate::model::dynm::NAIF);
    let tab = w.leap.clone();
    let shipped = cfg.repo_dir.join("data/leap-seconds.list");
    let mut file = None;
    if sh == 0 {
        check_tables(rep, cfg, &tab);
    }
    if sh <= 1 {
        file = check_file(rep, &shipped, &tab, "table/file-shipped");
    }
    if sh == 0 {
        for (p, want) in synth_files(cfg, &tab) {
            let f = check_file(rep, &p, &want, "table/file-synth");
            // a provider from a synthesized file answers per its own table
            if let Some(f) = f {
                for &(ts, _) in want.iter().chain(tab.iter()) {
                    for d in [-1i128, 0, 1, 50 * NS_S] {
                        if !rep.tick() {
                            continue;
                        }
                        let t = ts as i128 * NS_S + d;
                        let e = ep(t, TimeScale::TAI);
                        let wv = {
                            let o = leap::offset_at_utc(&want, t);
                            if t < want.first().map(|x| x.0 as i128 * NS_S).unwrap_or(i128::MAX) { None } else { Some(o as f64) }
                        };
                        match guard(|| e.leap_seconds_with(true, f.clone())) {
                            Err(p) => rep.fail(&format!("provider/panic/{}", p.class()), None, || format!("leap_seconds_with panicked {}", p.msg)),
                            Ok(g) => {
                                if g != wv {
                                    rep.fail("provider/synth-answer", None, || format!("provider {} at TAI count {}: {:?} want {:?}", p.display(), t, g, wv));
                                }
                            }
                        }
                    }
                }
            }
        }
        // layouts an editor or another tool leaves behind that are not in the published files (indented lines, trailing
        // blanks, a comment glued to the value, blank-only lines; LF or CRLF line ends as in the published files): refusing the file is fine - a provider
        // that is returned must hold exactly the table written in the file, never a silently shorter or different one
        {
            let dir = cfg.verif_dir.join("harness").join("target").join("synth-leap");
            let rows = |f: &dyn Fn(&(i64, i64)) -> String| tab.iter().map(|t| f(t)).collect::<String>();
            let variants: Vec<(&str, String)> = vec![
                ("indented", rows(&|t| format!("  {}\t{}\t# e\n", t.0, t.1))),
                ("tab-indented", rows(&|t| format!("\t{}\t{}\n", t.0, t.1))),
                ("last-indented", tab.iter().enumerate().map(|(i, t)| format!("{}{}\t{}\n", if i + 1 == tab.len() { "\t" } else { "" }, t.0, t.1)).collect()),
                ("trailing-blanks", rows(&|t| format!("{}\t{}   \n", t.0, t.1))),
                ("glued-comment", rows(&|t| format!("{}\t{}# e\n", t.0, t.1))),
                ("indented-comments", format!("  # indented comment\n\t#\ttabbed comment\n{}", rows(&|t| format!("{}\t{}\n", t.0, t.1)))),
                ("blank-only-lines", format!("   \n\t\n{}", rows(&|t| format!("{}\t{}\n \n", t.0, t.1)))),
                ("three-columns", rows(&|t| format!("{}\t{}\t1 Jan 1972\n", t.0, t.1))),
            ];
            for (name, body) in variants {
                let p = dir.join(format!("lenient-{}-{}.list", name, cfg.seed));
                if std::fs::write(&p, body).is_err() || !rep.tick() {
                    continue;
                }
                rep.class("table/file-unusual-layout");
                match guard(|| LeapSecondsFile::from_path(&p).map(|f| f.collect::<Vec<LeapSecond>>())) {
                    Err(pp) => rep.fail(&format!("file/panic/{}", pp.class()), None, || format!("from_path({}) panicked: {} at {}", p.display(), pp.msg, pp.loc)),
                    Ok(Err(_)) => rep.class("table/file-unusual-layout-refused"),
                    Ok(Ok(got)) => {
                        if got.len() != tab.len() || !got.iter().zip(tab.iter()).all(|(a, b)| ls_eq(a, b.0, b.1, true)) {
                            rep.fail("file/unusual-layout-read-differently", None, || format!("from_path({}) is Ok with {} entries (last {:?}); the file holds the {} IERS entries", p.display(), got.len(), got.last(), tab.len()));
                        }
                    }
                }
            }
        }
        // one path whose content changes between loads (the list is rewritten in place twice a year): every load answers for
        // what the file holds *now*
        let dir = cfg.verif_dir.join("harness").join("target").join("synth-leap");
        let p = dir.join(format!("rewritten-{}.list", cfg.seed));
        let body = |t: &[(i64, i64)], head: &str| {
            let mut b = String::from(head);
            for x in t {
                b.push_str(&format!("{}\t{}\t# e\n", x.0, x.1));
            }
            b
        };
        let mut ext = tab.to_vec();
        ext.push((crate::model::cal::days_from_1900(2033, 7, 1) * 86400, 38));
        let n26 = tab.len() - 2;
        for (k, (want, head)) in [(&tab[..n26], "# as of 2014\n"), (&tab[..], "# as of 2017\n#\n"), (&ext[..], ""), (&tab[..10], "# older copy restored\n"), (&tab[..0], "# emptied\n"), (&tab[..], "")].into_iter().enumerate() {
            if std::fs::write(&p, body(want, head)).is_err() {
                continue;
            }
            rep.class("table/file-rewritten");
            if let Some(f) = check_file(rep, &p, want, "table/file-rewritten") {
                let t = 6_400_000_000i128 * NS_S + k as i128; // 2102: after every entry of every variant
                let e = ep(t, TimeScale::TAI);
                let wv = want.last().map(|x| x.1 as f64);
                match guard(|| e.leap_seconds_with(true, f.clone())) {
                    Err(pp) => rep.fail(&format!("provider/panic/{}", pp.class()), None, || format!("leap_seconds_with panicked {}", pp.msg)),
                    Ok(g) => {
                        if g != wv {
                            rep.fail("provider/rewritten-answer", None, || format!("provider {} (load {k} of the same path) at TAI count {}: {:?} want {:?}", p.display(), t, g, wv));
                        }
                    }
                }
            }
        }
        let _ = std::fs::remove_file(&p);
    } else if file.is_none() {
        // (one read per thread: the coverage-guided driver calls run() once per input)
        thread_local! { static SHIPPED: std::cell::RefCell<Option<LeapSecondsFile>> = const { std::cell::RefCell::new(None) }; }
        file = SHIPPED.with(|c| {
            let mut c = c.borrow_mut();
            if c.is_none() {
                *c = LeapSecondsFile::from_path(&shipped).ok();
            }
            c.clone()
        });
    }
    // dense lattice
    let mut i = 0usize;
    for &(ts, o) in &tab {
        if cfg.fuzz {
            break;
        }
        let mut batch = vec![];
        for s in -40i128..=40 + o as i128 {
            for ns in [0i128, 1, 250, 499_999_999, 999_999_999] {
                let u = (ts as i128 + s) * NS_S + ns;
                batch.push(u);
                i += 1;
                if i % n == sh {
                    check_utc(rep, &w, u, if i % 5 == 0 { file.as_ref() } else { None });
                }
            }
        }
        i += 1;
        if i % n == sh {
            check_monotone(rep, &w, batch);
        }
    }
    // the mirror images of the table instants about 1900 (and of the instants shifted by each offset): a comparison that takes
    // a count for its negation - `Duration ==` does within a century - finds a table entry there, 72 to 99 years before 1900
    for &(ts, o) in &tab {
        if cfg.fuzz {
            break;
        }
        for base in [-(ts as i128) * NS_S, -(ts as i128 + o as i128) * NS_S, -(ts as i128 - o as i128) * NS_S] {
            for d in [-NS_S, -2, -1, 0, 1, 2, NS_S] {
                i += 1;
                if i % n == sh {
                    rep.class("instant/mirror-image-of-a-table-entry");
                    check_utc(rep, &w, base + d, if i % 3 == 0 { file.as_ref() } else { None });
                }
            }
        }
    }
    // random
    let mut r = Rng::new(cfg.seed, 0x0600 + sh as u64);
    let nrand = cfg.budget(3_000_000);
    let y = |yy: i64| crate::model::cal::days_from_1900(yy, 1, 1) as i128 * NS_D;
    for k in 0..nrand {
        let k = cfg.k(k, &mut r);
        let u = match r.below(10) {
            0..=2 => r.range_i128(y(1800), y(2200)),
            3 => r.range_i128(y(1960), y(1972)),
            4 => r.range_i128(y(2017), y(2100)),
            5..=7 => {
                let (ts, o) = *r.pick(&tab);
                ts as i128 * NS_S + r.range_i64(-41, 41 + o) as i128 * NS_S + *r.pick(&[0i128, 1, -1, 2, -2, -250, 250, -999, 500_000_000])
            }
            8 => {
                let (ts, _) = *r.pick(&tab);
                ts as i128 * NS_S + r.range_i64(-1000, 1000) as i128
            }
            _ => gen::rand_reading(&mut r, TimeScale::UTC, &[0]),
        };
        check_utc(rep, &w, u, if k % 7 == 0 { file.as_ref() } else { None });
        if k % 256 == 0 {
            let base = if r.bool() { r.pick(&tab).0 as i128 * NS_S } else { r.range_i128(y(1950), y(2030)) };
            let mut b = vec![];
            for _ in 0..300 {
                b.push(base + r.range_i64(-50, 90) as i128 * NS_S / *r.pick(&[1i128, 2, 3, 1000]) + r.range_i64(-3, 3) as i128);
            }
            check_monotone(rep, &w, b);
        }
    }
}
