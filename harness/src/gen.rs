//! Workload generators: boundary lattices and stratified random sampling.
use crate::core::Rng;
use crate::model::cal;
use crate::model::dur::*;
use crate::model::scale::{greg_zero_ns, zero_tai_ns, SCALES};
use hifitime::TimeScale;

pub const DELTAS: [i128; 7] = [-3, -2, -1, 0, 1, 2, 3];

/// Boundary lattice of duration counts (seed independent, sorted, deduplicated, clamped to range).
pub fn dur_lattice() -> Vec<i128> {
    // computed once per thread (the coverage-guided driver enters a workload once per input)
    thread_local! { static MEMO: std::cell::RefCell<Option<Vec<i128>>> = const { std::cell::RefCell::new(None) }; }
    MEMO.with(|m| m.borrow_mut().get_or_insert_with(dur_lattice_build).clone())
}

fn dur_lattice_build() -> Vec<i128> {
    let mut v: Vec<i128> = vec![];
    let ks: [i128; 17] = [-32768, -32767, -32766, -4, -3, -2, -1, 0, 1, 2, 3, 4, 32765, 32766, 32767, 32768, 100];
    for k in ks {
        for d in DELTAS {
            v.push(k * NPC + d);
        }
    }
    for u in [NS_US, NS_MS, NS_S, NS_MIN, NS_H, NS_D, NS_W] {
        for k in [1i128, 2, 23, 24, 59, 60, 999, 1000, 36524, 36525, 365, 366] {
            for d in [-1i128, 0, 1] {
                v.push(k * u + d);
                v.push(-(k * u + d));
            }
        }
    }
    // half centuries: the fixed points of the mirror map ns -> one century - ns (where "x and its mirror image" is x itself)
    for k in [-32768i128, -3, -2, -1, 0, 1, 2, 32767] {
        for d in [-1i128, 0, 1] {
            v.push(k * NPC + NPC / 2 + d);
        }
    }
    for p in [1i128 << 53, 1 << 63, 1 << 64, i64::MAX as i128, 1 << 62, 1 << 52, 1 << 31, 1 << 32] {
        for d in [-1i128, 0, 1] {
            v.push(p + d);
            v.push(-(p + d));
        }
    }
    for x in v.iter_mut() {
        *x = clamp(*x);
    }
    v.sort();
    v.dedup();
    v
}

/// Random duration count over the whole representable range (stratified mixture).
pub fn rand_count(r: &mut Rng, lat: &[i128]) -> i128 {
    let v = match r.below(100) {
        0..=19 => r.range_i128(MIN_NS, MAX_NS),
        20..=44 => {
            let k = r.below(78) as u32;
            let m = if k == 0 { 0 } else { r.range_i128(0, (1i128 << k) - 1) };
            if r.bool() {
                m
            } else {
                -m
            }
        }
        45..=64 => {
            let u = *r.pick(&[NS_US, NS_MS, NS_S, NS_MIN, NS_H, NS_D, NS_W, NPC]);
            let k = match r.below(3) {
                0 => r.range_i64(-1000, 1000) as i128,
                1 => r.range_i64(-4_000_000, 4_000_000) as i128,
                _ => r.range_i128(MIN_NS / u, MAX_NS / u),
            };
            k * u + r.range_i64(-3, 3) as i128
        }
        65..=84 => {
            let c = r.range_i64(-32768, 32768) as i128;
            let d = if r.bool() { r.range_i64(-3, 3) as i128 } else { r.range_i64(-2_000_000_000, 2_000_000_000) as i128 };
            c * NPC + d
        }
        85..=92 => {
            // small centuries, arbitrary ns
            let c = r.range_i64(-4, 4) as i128;
            c * NPC + r.range_i128(0, NPC - 1)
        }
        _ => *r.pick(lat),
    };
    clamp(v)
}

/// Random count with |v| <= max_abs (log/uniform/near-unit mixture).
pub fn rand_count_within(r: &mut Rng, max_abs: i128) -> i128 {
    let v = match r.below(100) {
        0..=29 => r.range_i128(-max_abs, max_abs),
        30..=59 => {
            let bits = 128 - (max_abs as u128).leading_zeros();
            let k = r.below(bits as u64 + 1) as u32;
            let m = if k == 0 { 0 } else { r.range_i128(0, (1i128 << k) - 1) };
            if r.bool() {
                m
            } else {
                -m
            }
        }
        _ => {
            let u = *r.pick(&[NS_US, NS_MS, NS_S, NS_MIN, NS_H, NS_D, NS_W]);
            let kmax = (max_abs / u).max(1);
            let k = match r.below(3) {
                0 => r.range_i128(-1000.min(kmax), 1000.min(kmax)),
                _ => r.range_i128(-kmax, kmax),
            };
            k * u + r.range_i64(-3, 3) as i128
        }
    };
    v.clamp(-max_abs, max_abs)
}

/// Raw constructor parts covering every (i16,u64) class incl. ns >= NPC up to u64::MAX.
pub fn rand_raw_parts(r: &mut Rng) -> (i16, u64) {
    let c = match r.below(10) {
        0 => i16::MIN,
        1 => i16::MAX,
        2 => *r.pick(&[-32767i16, -32766, 32766, 32765, -2, -1, 0, 1, 2, -3, 3]),
        _ => r.range_i64(-32768, 32767) as i16,
    };
    let npc = NPC as u64;
    let ns = match r.below(10) {
        0 => *r.pick(&[0u64, 1, npc - 1, npc, npc + 1, 2 * npc - 1, 2 * npc, 2 * npc + 1, 5 * npc, u64::MAX, u64::MAX - 1]),
        1..=4 => r.below(npc),
        5..=6 => r.u64(),
        7 => r.below(5) * npc + r.below(4),
        _ => (r.below(5) * npc).wrapping_add(r.below(npc)),
    };
    (c, ns)
}

// ------------------------------------------------------------------------------------------
// Epoch readings

/// Range of readings (ns since the scale's zero) whose civil year lies in [y0, y1].
pub fn reading_range(s: TimeScale, y0: i64, y1: i64) -> (i128, i128) {
    let lo = cal::days_from_1900(y0, 1, 1) as i128 * NS_D - greg_zero_ns(s);
    let hi = (cal::days_from_1900(y1 + 1, 1, 1) as i128) * NS_D - 1 - greg_zero_ns(s);
    (lo, hi)
}

/// Interesting reading boundaries for a scale: zero, century/day/year boundaries, leap seconds (for
/// UTC/TAI counts), limits of years 1 and 9999.
pub fn reading_lattice(s: TimeScale, leap: &[(i64, i64)]) -> Vec<i128> {
    // computed once per thread and (scale, table) pair
    thread_local! { static MEMO: std::cell::RefCell<Vec<(TimeScale, Vec<(i64, i64)>, Vec<i128>)>> = const { std::cell::RefCell::new(Vec::new()) }; }
    MEMO.with(|m| {
        let mut m = m.borrow_mut();
        if let Some(e) = m.iter().find(|e| e.0 == s && e.1 == leap) {
            return e.2.clone();
        }
        let v = reading_lattice_build(s, leap);
        m.push((s, leap.to_vec(), v.clone()));
        v
    })
}

fn reading_lattice_build(s: TimeScale, leap: &[(i64, i64)]) -> Vec<i128> {
    let mut v = vec![];
    let (lo, hi) = reading_range(s, 1, 9999);
    let z = greg_zero_ns(s);
    let mut base: Vec<i128> = vec![0, lo, hi + 1, NPC, -NPC, 2 * NPC, -2 * NPC, -z, NS_D, -NS_D];
    for y in [1i64, 4, 100, 400, 1582, 1600, 1700, 1800, 1899, 1900, 1901, 1970, 1972, 1980, 1999, 2000, 2001, 2006, 2024, 2100, 2400, 3408, 3409, 9999] {
        base.push(cal::days_from_1900(y, 1, 1) as i128 * NS_D - z);
        base.push(cal::days_from_1900(y, 3, 1) as i128 * NS_D - z);
        base.push(cal::days_from_1900(y, 12, 31) as i128 * NS_D - z);
    }
    for &(ts, o) in leap {
        let t = ts as i128 * NS_S;
        base.push(t - z);
        base.push(t + o as i128 * NS_S - z);
        base.push(t + (o as i128 - 1) * NS_S - z);
        // the mirror images of the table's instants about the count origin (where the x == -x equality of durations would
        // make a comparison against a table entry answer for the wrong side of 1900)
        base.push(-t);
        base.push(-t - z);
        base.push(-(t + o as i128 * NS_S));
    }
    // the constants of the scales themselves, and their mirror images about zero, as readings and as TAI counts: offsets
    // between references (19 s, 33 s, 32.184 s), reference dates seen from another scale. A comparison with such a constant
    // through the x == -x equality of durations, or a short-cut "this is the reference epoch", fires at these single instants.
    // (zero_tai_ns is defined for the uniform scales; UTC shares TAI's count origin, ET / TDB count from J2000 noon)
    let zt = |x: TimeScale| -> i128 {
        match x {
            TimeScale::UTC => 0,
            TimeScale::ET | TimeScale::TDB => greg_zero_ns(x),
            _ => zero_tai_ns(x),
        }
    };
    let zs = zt(s);
    for s2 in SCALES {
        for k in [zt(s2), greg_zero_ns(s2), zt(s2) - zs, greg_zero_ns(s2) - z, zt(s2) + greg_zero_ns(s2)] {
            for sign in [1i128, -1] {
                base.push(sign * k); // as a reading in s
                base.push(sign * k - zs); // as a TAI count
                base.push(sign * k - z); // as a count from 1900-01-01 of s's own calendar
            }
        }
    }
    for k in [19 * NS_S, 33 * NS_S, 32_184_000_000i128, 14 * NS_S, 51_184_000_000, 65_184_000_000, 37 * NS_S, 10 * NS_S] {
        for sign in [1i128, -1] {
            base.push(sign * k);
            base.push(sign * k - zs);
        }
    }
    // binary and decimal thresholds of a 64-bit nanosecond count (2^63 ns after 1900 is 10 April 2192, 23:47:16.854775808), as a
    // reading, as a TAI count and as a count from 1900-01-01 of the scale's own calendar: where an i64 / u64 / f64 short-cut
    // of any of the three stops being exact
    for thr in [1i128 << 53, 1 << 62, 1 << 63, 1 << 64, 1_000_000_000_000_000_000, 10_000_000_000_000_000_000] {
        for sign in [1i128, -1] {
            base.push(sign * thr);
            base.push(sign * thr - zs);
            base.push(sign * thr - z);
        }
    }
    for b in base {
        for d in [-NS_S, -1000, -3, -2, -1, 0, 1, 2, 3, 1000, NS_S] {
            let x = b + d;
            if x >= lo && x <= hi {
                v.push(x);
            }
        }
    }
    v.sort();
    v.dedup();
    v
}

/// Random reading with civil year in [1, 9999] for the scale.
pub fn rand_reading(r: &mut Rng, s: TimeScale, lat: &[i128]) -> i128 {
    let (lo, hi) = reading_range(s, 1, 9999);
    match r.below(100) {
        0..=36 => r.range_i128(lo, hi),
        37..=39 => {
            // a time of day exactly one unit (second, minute, hour ... and their neighbours 59 / 61) after the start or before
            // the end of the day, to the nanosecond or one off: where a split of the time of day - or of its complement, for
            // days counted backwards - changes its number of fields
            let day = r.range_i128(lo / NS_D, hi / NS_D) * NS_D - greg_zero_ns(s).rem_euclid(NS_D);
            let off = *r.pick(&[NS_S, 59 * NS_S, NS_MIN, 61 * NS_S, 59 * NS_MIN, NS_H, 61 * NS_MIN, 2 * NS_MIN, 12 * NS_H, 23 * NS_H, 1_000, 1_000_000]);
            let tod = if r.bool() { off } else { NS_D - off };
            (day + tod + r.range_i64(-1, 1) as i128).clamp(lo, hi)
        }
        40..=64 => {
            // modern era
            let (a, b) = reading_range(s, 1950, 2060);
            r.range_i128(a, b)
        }
        65..=79 => {
            // near a day boundary
            let day = r.range_i128(lo / NS_D, hi / NS_D);
            (day * NS_D - greg_zero_ns(s).rem_euclid(NS_D) + r.range_i64(-2000, 2000) as i128).clamp(lo, hi)
        }
        80..=84 => {
            // a "round" time of day: whole second, minute or midnight plus a sub-second that is a whole number of
            // milliseconds or microseconds, or one digit group of the nine only
            let day = r.range_i128(lo / NS_D, hi / NS_D) * NS_D - greg_zero_ns(s).rem_euclid(NS_D);
            let tod = match r.below(4) {
                0 => 0,
                1 => r.below(86_400) as i128 * NS_S,
                2 => r.below(1_440) as i128 * NS_MIN,
                _ => 86_399 * NS_S,
            };
            let sub = match r.below(6) {
                0 => r.below(1000) as i128 * 1_000_000,
                1 => r.below(1000) as i128 * 1_000,
                2 => r.below(1000) as i128,
                3 => r.below(1_000_000) as i128 * 1_000,
                4 => (1 + r.below(9) as i128) * 10i128.pow(r.below(9) as u32),
                _ => r.below(1000) as i128 * 1_000_000 + r.below(1000) as i128,
            };
            (day + tod + sub).clamp(lo, hi)
        }
        85..=89 => {
            // near a whole second
            let sec = r.range_i128(lo / NS_S, hi / NS_S);
            (sec * NS_S + r.range_i64(-2, 2) as i128).clamp(lo, hi)
        }
        _ => *r.pick(lat),
    }
}

pub fn rand_scale(r: &mut Rng) -> TimeScale {
    *r.pick(&SCALES)
}
