//! M-LEAP: ground truth = the 28 IERS announcements embedded here as civil dates; the harness
//! also re-reads the list file and the NAIF kernel shipped with the sources and demands agreement.
use super::cal;
use super::dur::NS_S;
use std::path::Path;

/// (year, month, day of the first day with the new offset, TAI-UTC in seconds from then on)
pub const IERS: [(i64, u32, u32, i64); 28] = [
    (1972, 1, 1, 10),
    (1972, 7, 1, 11),
    (1973, 1, 1, 12),
    (1974, 1, 1, 13),
    (1975, 1, 1, 14),
    (1976, 1, 1, 15),
    (1977, 1, 1, 16),
    (1978, 1, 1, 17),
    (1979, 1, 1, 18),
    (1980, 1, 1, 19),
    (1981, 7, 1, 20),
    (1982, 7, 1, 21),
    (1983, 7, 1, 22),
    (1985, 7, 1, 23),
    (1988, 1, 1, 24),
    (1990, 1, 1, 25),
    (1991, 1, 1, 26),
    (1992, 7, 1, 27),
    (1993, 7, 1, 28),
    (1994, 7, 1, 29),
    (1996, 1, 1, 30),
    (1997, 7, 1, 31),
    (1999, 1, 1, 32),
    (2006, 1, 1, 33),
    (2009, 1, 1, 34),
    (2012, 7, 1, 35),
    (2015, 7, 1, 36),
    (2017, 1, 1, 37),
];

/// Table as (UTC seconds since 1900-01-01 00:00:00 at which the offset takes effect, offset).
pub fn table() -> Vec<(i64, i64)> {
    IERS.iter().map(|&(y, m, d, o)| (cal::days_from_1900(y, m, d) * 86400, o)).collect()
}

/// TAI-UTC (seconds) in force at UTC count `u_ns` (ns since 1900-01-01 00:00:00 UTC).
pub fn offset_at_utc(tab: &[(i64, i64)], u_ns: i128) -> i64 {
    let mut off = 0;
    for &(ts, o) in tab {
        if ts as i128 * NS_S <= u_ns {
            off = o;
        } else {
            break;
        }
    }
    off
}

pub fn tai_from_utc(tab: &[(i64, i64)], u_ns: i128) -> i128 {
    u_ns + offset_at_utc(tab, u_ns) as i128 * NS_S
}

/// UTC count whose image is the TAI count `t_ns`, if there is one (None for TAI instants inside an
/// inserted second / the 1972 step, which have no pre-image in the count representation).
pub fn utc_from_tai(tab: &[(i64, i64)], t_ns: i128) -> Option<i128> {
    // candidates: t - o for every distinct offset o (incl. 0)
    let mut offs: Vec<i64> = vec![0];
    offs.extend(tab.iter().map(|x| x.1));
    for o in offs {
        let u = t_ns - o as i128 * NS_S;
        if offset_at_utc(tab, u) == o {
            return Some(u);
        }
    }
    None
}

/// Known finding F12b: TAI->UTC subtracts the offset of the last entry whose UTC-frame timestamp
/// is <= the TAI count.
pub fn f12b_utc_from_tai(tab: &[(i64, i64)], t_ns: i128) -> i128 {
    t_ns - offset_at_utc(tab, t_ns) as i128 * NS_S
}

/// Parser for the IERS leap-seconds.list format (harness's own; not the library's).
pub fn parse_list_file(p: &Path) -> Result<Vec<(i64, i64)>, String> {
    let s = std::fs::read_to_string(p).map_err(|e| format!("{}: {e}", p.display()))?;
    let mut out = vec![];
    for line in s.lines() {
        let l = line.trim();
        if l.is_empty() || l.starts_with('#') {
            continue;
        }
        let mut it = l.split_whitespace();
        let a = it.next().ok_or("col1")?.parse::<i64>().map_err(|e| e.to_string())?;
        let b = it.next().ok_or("col2")?.parse::<i64>().map_err(|e| e.to_string())?;
        out.push((a, b));
    }
    Ok(out)
}

pub struct NaifKernel {
    pub delta_t_a: f64,
    pub k: f64,
    pub eb: f64,
    pub m0: f64,
    pub m1: f64,
    pub delta_at: Vec<(i64, i64)>,
}

/// Parser for the DELTET block of the NAIF leap-second kernel.
pub fn parse_naif(p: &Path) -> Result<NaifKernel, String> {
    let s = std::fs::read_to_string(p).map_err(|e| format!("{}: {e}", p.display()))?;
    let begin = s.find("\\begindata").ok_or("no \\begindata")?;
    let data = &s[begin..];
    let num = |t: &str| -> Result<f64, String> { t.replace('D', "E").parse::<f64>().map_err(|e| format!("{t}: {e}")) };
    let field = |name: &str| -> Result<String, String> {
        let i = data.find(name).ok_or(format!("no {name}"))?;
        let rest = &data[i + name.len()..];
        let eq = rest.find('=').ok_or("no =")?;
        let rest = rest[eq + 1..].trim_start();
        if let Some(r) = rest.strip_prefix('(') {
            Ok(r[..r.find(')').ok_or("no )")?].to_string())
        } else {
            Ok(rest.lines().next().unwrap_or("").trim().to_string())
        }
    };
    let m = field("DELTET/M ")?;
    let mut mi = m.split_whitespace();
    let months = ["JAN", "FEB", "MAR", "APR", "MAY", "JUN", "JUL", "AUG", "SEP", "OCT", "NOV", "DEC"];
    let mut delta_at = vec![];
    let at = field("DELTET/DELTA_AT")?;
    let toks: Vec<&str> = at.split(|c: char| c.is_whitespace() || c == ',').filter(|t| !t.is_empty()).collect();
    for ch in toks.chunks(2) {
        if ch.len() != 2 {
            return Err("odd DELTA_AT".into());
        }
        let off = ch[0].parse::<i64>().map_err(|e| e.to_string())?;
        let d = ch[1].trim_start_matches('@');
        let mut parts = d.split('-');
        let y = parts.next().ok_or("y")?.parse::<i64>().map_err(|e| e.to_string())?;
        let mo = parts.next().ok_or("m")?;
        let mo = months.iter().position(|x| *x == mo).ok_or("month name")? as u32 + 1;
        let dd = parts.next().ok_or("d")?.parse::<u32>().map_err(|e| e.to_string())?;
        delta_at.push((cal::days_from_1900(y, mo, dd) * 86400, off));
    }
    Ok(NaifKernel {
        delta_t_a: num(&field("DELTET/DELTA_T_A")?)?,
        k: num(&field("DELTET/K ")?)?,
        eb: num(&field("DELTET/EB ")?)?,
        m0: num(mi.next().ok_or("m0")?)?,
        m1: num(mi.next().ok_or("m1")?)?,
        delta_at,
    })
}
