//! M-FLOAT: helpers for judging f64 values against exact integer/rational values.

/// size of one unit in the last place of |x| (for finite x)
pub fn ulp(x: f64) -> f64 {
    let a = x.abs();
    if a == 0.0 || !a.is_finite() {
        return f64::MIN_POSITIVE;
    }
    let b = f64::from_bits(a.to_bits() + 1);
    b - a
}

/// Decompose a finite f64 into (mantissa, exponent) with x = m * 2^e exactly.
pub fn decompose(x: f64) -> (i128, i32) {
    let bits = x.to_bits();
    let sign: i128 = if bits >> 63 == 1 { -1 } else { 1 };
    let exp = ((bits >> 52) & 0x7ff) as i32;
    let frac = (bits & 0xfffffffffffff) as i128;
    if exp == 0 {
        (sign * frac, -1074)
    } else {
        (sign * (frac | (1 << 52)), exp - 1075)
    }
}

/// trunc toward zero of a finite f64 as i128, saturating (exact, via the bit pattern)
pub fn trunc_i128(x: f64) -> i128 {
    let (m, e) = decompose(x);
    if e >= 0 {
        if e > 70 {
            return if m < 0 { i128::MIN } else if m > 0 { i128::MAX } else { 0 };
        }
        m << e
    } else if e < -120 {
        0
    } else {
        // truncate toward zero
        let a = m.abs() >> (-e);
        if m < 0 {
            -a
        } else {
            a
        }
    }
}

/// |x - exact_num/exact_den| measured in ulps of `scale_ref` (a float near the exact value).
/// Computed as: err = x - q where q = num/den evaluated in f64 pieces without cancellation:
/// we compare x*den against num in i128-extended arithmetic when possible, else fall back to f64.
pub fn err_in_ulps(x: f64, num: i128, den: i128, ulp_ref: f64) -> f64 {
    // integer part and remainder of the exact value
    let q = num.div_euclid(den);
    let r = num.rem_euclid(den); // 0 <= r < den
    // x - q - r/den ; x - q computed exactly when both < 2^100 via decomposition
    let (m, e) = decompose(x);
    // represent x as integer part + fractional part
    let (xi, xf): (i128, f64) = if e >= 0 {
        if e > 60 {
            return f64::INFINITY;
        }
        (m << e, 0.0)
    } else if e < -126 {
        (0, x)
    } else {
        let sh = (-e) as u32;
        let fl = m >> sh; // floor
        let rem = m - (fl << sh);
        (fl, rem as f64 / 2f64.powi(sh as i32))
    };
    let di = (xi - q) as f64;
    let df = xf - (r as f64 / den as f64);
    ((di + df) / ulp_ref).abs()
}

// ---------------------------------------------------------------------------------------------
// Exact comparison of a float against a rational, via a minimal 256-bit unsigned integer.

#[derive(Clone, Copy, PartialEq, Eq, Debug)]
pub struct U256 {
    pub hi: u128,
    pub lo: u128,
}
impl U256 {
    pub fn mul(a: u128, b: u128) -> U256 {
        let (a1, a0) = (a >> 64, a & u64::MAX as u128);
        let (b1, b0) = (b >> 64, b & u64::MAX as u128);
        let p00 = a0 * b0;
        let p01 = a0 * b1;
        let p10 = a1 * b0;
        let p11 = a1 * b1;
        let mid = (p00 >> 64) + (p01 & u64::MAX as u128) + (p10 & u64::MAX as u128);
        let lo = (p00 & u64::MAX as u128) | (mid << 64);
        let hi = p11 + (p01 >> 64) + (p10 >> 64) + (mid >> 64);
        U256 { hi, lo }
    }
    /// shift left; None when bits would be lost
    pub fn shl(self, k: u32) -> Option<U256> {
        if k == 0 {
            return Some(self);
        }
        if k >= 256 {
            return if self.hi == 0 && self.lo == 0 { Some(self) } else { None };
        }
        if k >= 128 {
            if self.hi != 0 || (k > 128 && self.lo >> (256 - k) != 0) {
                return None;
            }
            return Some(U256 { hi: self.lo << (k - 128), lo: 0 });
        }
        if self.hi >> (128 - k) != 0 {
            return None;
        }
        Some(U256 { hi: (self.hi << k) | (self.lo >> (128 - k)), lo: self.lo << k })
    }
    pub fn cmp(&self, o: &U256) -> core::cmp::Ordering {
        (self.hi, self.lo).cmp(&(o.hi, o.lo))
    }
}

/// Exact ordering of the finite float x against the rational num/den (den > 0).
pub fn cmp_float_rational(x: f64, num: i128, den: i128) -> core::cmp::Ordering {
    use core::cmp::Ordering::*;
    let (m, e) = decompose(x);
    let sx = m.signum();
    let sn = num.signum();
    if sx != sn {
        return sx.cmp(&sn);
    }
    if sx == 0 {
        return Equal;
    }
    // compare |m| * 2^e * den  vs  |num|
    let l = U256::mul(m.unsigned_abs(), den as u128);
    let r = U256 { hi: 0, lo: num.unsigned_abs() };
    let mag = if e >= 0 {
        match l.shl(e as u32) {
            Some(l2) => l2.cmp(&r),
            None => Greater,
        }
    } else {
        match r.shl((-e) as u32) {
            Some(r2) => l.cmp(&r2),
            None => Less,
        }
    };
    if sx > 0 {
        mag
    } else {
        mag.reverse()
    }
}

/// Is |x - num/den| <= n * ulp_ref, decided exactly (x +- n*ulp_ref are computed in f64; they are
/// exactly representable whenever ulp_ref >= ulp(x), which is how callers choose ulp_ref).
pub fn within_ulps(x: f64, num: i128, den: i128, ulp_ref: f64, n: f64) -> bool {
    if !x.is_finite() {
        return false;
    }
    let lo = x - n * ulp_ref;
    let hi = x + n * ulp_ref;
    cmp_float_rational(lo, num, den) != core::cmp::Ordering::Greater && cmp_float_rational(hi, num, den) != core::cmp::Ordering::Less
}

/// Approximate error in ulps (informational only; relative form, good to ~3 ulp).
pub fn approx_err_ulps(x: f64, num: i128, den: i128, ulp_ref: f64) -> f64 {
    let exact = num as f64 / den as f64;
    if exact == 0.0 {
        return x.abs() / ulp_ref;
    }
    (((x / exact) - 1.0) * exact / ulp_ref).abs()
}
