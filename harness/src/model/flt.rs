//! M-FLOAT: helpers for judging f64 values against exact integer/rational values.

/// size of one unit in the last place of |x| (for finite x)
pub fn ulp(x: f64) -> f64 {
    let a = x.abs();
    if a == 0.0 || !a.is_finite() {
        return f64::MIN_POSITIVE;
    }
    let b = f64::from_bits(a.to_bits() + 1);
    b - a
}

/// Decompose a finite f64 into (mantissa, exponent) with x = m * 2^e exactly.
pub fn decompose(x: f64) -> (i128, i32) {
    let bits = x.to_bits();
    let sign: i128 = if bits >> 63 == 1 { -1 } else { 1 };
    let exp = ((bits >> 52) & 0x7ff) as i32;
    let frac = (bits & 0xfffffffffffff) as i128;
    if exp == 0 {
        (sign * frac, -1074)
    } else {
        (sign * (frac | (1 << 52)), exp - 1075)
    }
}

/// trunc toward zero of a finite f64 as i128, saturating (exact, via the bit pattern)
pub fn trunc_i128(x: f64) -> i128 {
    let (m, e) = decompose(x);
    if e >= 0 {
        if e > 70 {
            return if m < 0 { i128::MIN } else if m > 0 { i128::MAX } else { 0 };
        }
        m << e
    } else if e < -120 {
        0
    } else {
        // truncate toward zero
        let a = m.abs() >> (-e);
        if m < 0 {
            -a
        } else {
            a
        }
    }
}

/// |x - exact_num/exact_den| measured in ulps of `scale_ref` (a float near the exact value).
/// Computed as: err = x - q where q = num/den evaluated in f64 pieces without cancellation:
/// we compare x*den against num in i128-extended arithmetic when possible, else fall back to f64.
pub fn err_in_ulps(x: f64, num: i128, den: i128, ulp_ref: f64) -> f64 {
    // integer part and remainder of the exact value
    let q = num.div_euclid(den);
    let r = num.rem_euclid(den); // 0 <= r < den
    // x - q - r/den ; x - q computed exactly when both < 2^100 via decomposition
    let (m, e) = decompose(x);
    // represent x as integer part + fractional part
    let (xi, xf): (i128, f64) = if e >= 0 {
        if e > 60 {
            return f64::INFINITY;
        }
        (m << e, 0.0)
    } else if e < -126 {
        (0, x)
    } else {
        let sh = (-e) as u32;
        let fl = m >> sh; // floor
        let rem = m - (fl << sh);
        (fl, rem as f64 / 2f64.powi(sh as i32))
    };
    let di = (xi - q) as f64;
    let df = xf - (r as f64 / den as f64);
    ((di + df) / ulp_ref).abs()
}
