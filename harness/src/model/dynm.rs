//! M-DYN: ET and TDB closed forms from the statement. All sums are done in i128 nanoseconds; the
//! periodic term is computed in f64 (|term| < 2 ms, so its absolute error is < 1e-12 s) and is never
//! obtained by subtracting two large floats.
use super::cal;
use super::dur::{NS_D, NS_S};

#[derive(Clone, Copy, Debug)]
pub struct Params {
    pub k: f64,
    pub eb: f64,
    pub m0: f64,
    pub m1: f64,
}
/// Constants of the NAIF leap-second kernel (naif0012.txt), as in the statement.
pub const NAIF: Params = Params { k: 1.657e-3, eb: 1.671e-2, m0: 6.239996, m1: 1.99096871e-7 };

pub fn j2000_ns() -> i128 {
    cal::days_from_1900(2000, 1, 1) as i128 * NS_D + NS_D / 2
}

const DTA_NS: i128 = 32_184_000_000;

/// periodic part of ET - TAI in ns, for t seconds past J2000
pub fn et_periodic_ns(p: &Params, t: f64) -> i128 {
    let m = p.m0 + p.m1 * t;
    let e = m + p.eb * m.sin();
    (p.k * e.sin() * 1e9).round() as i128
}

/// periodic part of TDB - TAI in ns
pub fn tdb_periodic_ns(t: f64) -> i128 {
    let g = 357.528_f64 * core::f64::consts::PI / 180.0 + 1.990_910_018_065_731e-7 * t;
    (0.001658 * (g + 0.0167 * g.sin()).sin() * 1e9).round() as i128
}

fn secs(r_ns: i128) -> f64 {
    // r up to ~3.2e20 ns: split so that the conversion is accurate to < 1e-6 s (irrelevant: the
    // derivative of the periodic term is 3e-10).
    let s = r_ns.div_euclid(NS_S);
    let f = r_ns.rem_euclid(NS_S);
    s as f64 + f as f64 * 1e-9
}

/// TAI count (ns since 1900) of the instant whose ET reading is r (ns since J2000 ET)
pub fn tai_from_et(p: &Params, r: i128) -> i128 {
    j2000_ns() + r - DTA_NS - et_periodic_ns(p, secs(r))
}
pub fn et_from_tai(p: &Params, t: i128) -> i128 {
    let base = t - j2000_ns() + DTA_NS;
    let mut r = base;
    for _ in 0..4 {
        r = base + et_periodic_ns(p, secs(r));
    }
    r
}
pub fn tai_from_tdb(r: i128) -> i128 {
    j2000_ns() + r - DTA_NS - tdb_periodic_ns(secs(r))
}
pub fn tdb_from_tai(t: i128) -> i128 {
    let base = t - j2000_ns() + DTA_NS;
    let mut r = base;
    for _ in 0..4 {
        r = base + tdb_periodic_ns(secs(r));
    }
    r
}
