//! M-TEXT: the harness's own renderer for the documented text forms and the field <-> count maps.
use super::cal;
use super::dur::*;
use super::scale::greg_zero_ns;
use hifitime::TimeScale;

#[derive(Clone, Copy, Debug, PartialEq, Eq)]
pub struct Fields {
    pub y: i64,
    pub m: u32,
    pub d: u32,
    pub h: u32,
    pub mi: u32,
    pub s: u32,
    pub ns: u32,
}

/// Gregorian fields of the reading `count` (ns since the scale's zero) in that scale.
pub fn fields_of(count: i128, s: TimeScale) -> Fields {
    let g = count + greg_zero_ns(s);
    let days = g.div_euclid(NS_D);
    let tod = g.rem_euclid(NS_D);
    let (y, m, d) = cal::civil_from_days_1900(days as i64);
    Fields {
        y,
        m,
        d,
        h: (tod / NS_H) as u32,
        mi: (tod % NS_H / NS_MIN) as u32,
        s: (tod % NS_MIN / NS_S) as u32,
        ns: (tod % NS_S) as u32,
    }
}

/// Reading (ns since the scale's zero) denoted by valid fields with second < 60.
pub fn count_of(f: &Fields, s: TimeScale) -> i128 {
    cal::days_from_1900(f.y, f.m, f.d) as i128 * NS_D
        + f.h as i128 * NS_H
        + f.mi as i128 * NS_MIN
        + f.s as i128 * NS_S
        + f.ns as i128
        - greg_zero_ns(s)
}

pub fn scale_name(s: TimeScale) -> &'static str {
    match s {
        TimeScale::TAI => "TAI",
        TimeScale::TT => "TT",
        TimeScale::ET => "ET",
        TimeScale::TDB => "TDB",
        TimeScale::UTC => "UTC",
        TimeScale::GPST => "GPST",
        TimeScale::GST => "GST",
        TimeScale::BDT => "BDT",
        TimeScale::QZSST => "QZSST",
        _ => "?",
    }
}

pub fn year4(y: i64) -> String {
    // {:04} of an i32: sign counts toward the width
    if y < 0 {
        format!("-{:03}", -y)
    } else {
        format!("{:04}", y)
    }
}

/// `YYYY-MM-DDTHH:MM:SS[.fffffffff]` -- nine fractional digits only when non-zero (Display form).
pub fn iso_display(f: &Fields) -> String {
    let mut s = format!("{}-{:02}-{:02}T{:02}:{:02}:{:02}", year4(f.y), f.m, f.d, f.h, f.mi, f.s);
    if f.ns != 0 {
        s.push_str(&format!(".{:09}", f.ns));
    }
    s
}

/// ISO text with exactly k fractional digits (k = 0: none). ns must be a multiple of 10^(9-k).
pub fn iso_frac(f: &Fields, k: usize, sep: char) -> String {
    let mut s = format!("{}-{:02}-{:02}{}{:02}:{:02}:{:02}", year4(f.y), f.m, f.d, sep, f.h, f.mi, f.s);
    if k > 0 {
        let v = f.ns / 10u32.pow(9 - k as u32);
        s.push_str(&format!(".{:0width$}", v, width = k));
    }
    s
}

/// Human-readable duration text as documented: non-zero components with unit names, single leading
/// '-' for negative, "0 ns" for zero, "day"/"days".
pub fn dur_display(count: i128) -> String {
    if count == 0 {
        return "0 ns".into();
    }
    let mut s = String::new();
    if count < 0 {
        s.push('-');
    }
    let (d, h, mi, sec, ms, us, ns) = decompose_abs(count.unsigned_abs());
    let vals = [d, h, mi, sec, ms, us, ns];
    let units = [if d > 1 { "days" } else { "day" }, "h", "min", "s", "ms", "μs", "ns"];
    let mut first = true;
    for (v, u) in vals.iter().zip(units.iter()) {
        if *v > 0 {
            if !first {
                s.push(' ');
            }
            s.push_str(&format!("{} {}", v, u));
            first = false;
        }
    }
    s
}

pub fn decompose_abs(a: u128) -> (u64, u64, u64, u64, u64, u64, u64) {
    let nd = NS_D as u128;
    (
        (a / nd) as u64,
        (a % nd / NS_H as u128) as u64,
        (a % NS_H as u128 / NS_MIN as u128) as u64,
        (a % NS_MIN as u128 / NS_S as u128) as u64,
        (a % NS_S as u128 / NS_MS as u128) as u64,
        (a % NS_MS as u128 / NS_US as u128) as u64,
        (a % NS_US as u128) as u64,
    )
}

/// Parses `YYYY-MM-DDTHH:MM:SS[.f{1..9}] SCALE` (the documented default text form). Harness's own parser.
pub fn parse_iso_with_scale(s: &str) -> Option<(Fields, String)> {
    let (dt, scale) = s.rsplit_once(' ')?;
    let (date, time) = dt.split_once('T')?;
    let mut it = date.rsplitn(3, '-');
    let d: u32 = it.next()?.parse().ok()?;
    let m: u32 = it.next()?.parse().ok()?;
    let y: i64 = it.next()?.parse().ok()?;
    let (hms, frac) = match time.split_once('.') {
        Some((a, b)) => (a, Some(b)),
        None => (time, None),
    };
    let mut t = hms.split(':');
    let h: u32 = t.next()?.parse().ok()?;
    let mi: u32 = t.next()?.parse().ok()?;
    let sec: u32 = t.next()?.parse().ok()?;
    if t.next().is_some() {
        return None;
    }
    let ns = match frac {
        None => 0,
        Some(f) => {
            if f.is_empty() || f.len() > 9 || !f.bytes().all(|b| b.is_ascii_digit()) {
                return None;
            }
            f.parse::<u32>().ok()? * 10u32.pow(9 - f.len() as u32)
        }
    };
    Some((Fields { y, m, d, h, mi, s: sec, ns }, scale.to_string()))
}

pub fn fields_valid(f: &Fields) -> bool {
    cal::valid_date(f.y, f.m, f.d) && f.h < 24 && f.mi < 60 && f.s < 60 && f.ns < 1_000_000_000
}
