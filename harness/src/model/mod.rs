//! Reference models (oracles). Written from the property statements, using different arithmetic
//! from the implementation (plain i128 / closed-form calendar), never from observed behaviour.
pub mod cal;
pub mod dur;
pub mod dynm;
pub mod flt;
pub mod leap;
pub mod scale;
pub mod text;
