//! M-CAL: proleptic Gregorian calendar by closed-form era arithmetic (days-from-civil /
//! civil-from-days), independent of the implementation's year loops and f64 splits.

pub fn is_leap(y: i64) -> bool {
    (y % 4 == 0 && y % 100 != 0) || y % 400 == 0
}

pub fn dim(y: i64, m: u32) -> u32 {
    match m {
        1 | 3 | 5 | 7 | 8 | 10 | 12 => 31,
        4 | 6 | 9 | 11 => 30,
        2 => {
            if is_leap(y) {
                29
            } else {
                28
            }
        }
        _ => 0,
    }
}

/// Days from 1970-01-01 to y-m-d (proleptic Gregorian), closed form.
pub fn days_from_civil(y: i64, m: u32, d: u32) -> i64 {
    let y = if m <= 2 { y - 1 } else { y };
    let era = y.div_euclid(400);
    let yoe = y.rem_euclid(400);
    let mp = (m as i64 + 9) % 12;
    let doy = (153 * mp + 2) / 5 + d as i64 - 1;
    let doe = yoe * 365 + yoe / 4 - yoe / 100 + doy;
    era * 146097 + doe - 719468
}

/// Inverse: (y, m, d) of the day `z` days after 1970-01-01.
pub fn civil_from_days(z: i64) -> (i64, u32, u32) {
    let z = z + 719468;
    let era = z.div_euclid(146097);
    let doe = z.rem_euclid(146097);
    let yoe = (doe - doe / 1460 + doe / 36524 - doe / 146096) / 365;
    let y = yoe + era * 400;
    let doy = doe - (365 * yoe + yoe / 4 - yoe / 100);
    let mp = (5 * doy + 2) / 153;
    let d = (doy - (153 * mp + 2) / 5 + 1) as u32;
    let m = if mp < 10 { mp + 3 } else { mp - 9 } as u32;
    (if m <= 2 { y + 1 } else { y }, m, d)
}

/// Days from 1900-01-01 to y-m-d.
pub fn days_from_1900(y: i64, m: u32, d: u32) -> i64 {
    days_from_civil(y, m, d) - days_from_civil(1900, 1, 1)
}

pub fn civil_from_days_1900(z: i64) -> (i64, u32, u32) {
    civil_from_days(z + days_from_civil(1900, 1, 1))
}

/// Weekday with Monday = 0 of the day `z` days after 1900-01-01 (a Monday).
pub fn weekday_1900(z: i64) -> u8 {
    z.rem_euclid(7) as u8
}

/// 1-based day of year
pub fn day_of_year(y: i64, m: u32, d: u32) -> u32 {
    (days_from_civil(y, m, d) - days_from_civil(y, 1, 1)) as u32 + 1
}

pub fn valid_date(y: i64, m: u32, d: u32) -> bool {
    (1..=12).contains(&m) && d >= 1 && d <= dim(y, m)
}

pub const MONTHS: [&str; 12] = [
    "January", "February", "March", "April", "May", "June", "July", "August", "September", "October",
    "November", "December",
];
pub const WEEKDAYS: [&str; 7] = ["Monday", "Tuesday", "Wednesday", "Thursday", "Friday", "Saturday", "Sunday"];

/// Model self-test: closed forms against a naive day-by-day accumulator over years -400..=10400,
/// and 1900-01-01 / 1970-01-01 / 2000-03-01 anchors. Returns the number of days compared.
pub fn self_test() -> Result<u64, String> {
    if days_from_civil(1970, 1, 1) != 0 {
        return Err("1970 anchor".into());
    }
    if days_from_1900(2000, 1, 1) != 36524 {
        return Err("2000 anchor".into());
    }
    if days_from_1900(1980, 1, 6) != 29224 {
        return Err("1980 anchor".into());
    }
    // 2024-02-29 was a Thursday
    if weekday_1900(days_from_1900(2024, 2, 29)) != 3 {
        return Err("weekday anchor".into());
    }
    let mut z = days_from_civil(-400, 1, 1);
    let mut n = 0u64;
    for y in -400i64..=10400 {
        let leap = (y.rem_euclid(4) == 0 && y.rem_euclid(100) != 0) || y.rem_euclid(400) == 0;
        let ml = [31, if leap { 29 } else { 28 }, 31, 30, 31, 30, 31, 31, 30, 31, 30, 31];
        for (mi, l) in ml.iter().enumerate() {
            for d in 1..=*l {
                if days_from_civil(y, mi as u32 + 1, d) != z {
                    return Err(format!("days_from_civil({y},{},{d})", mi + 1));
                }
                if civil_from_days(z) != (y, mi as u32 + 1, d) {
                    return Err(format!("civil_from_days({z})"));
                }
                z += 1;
                n += 1;
            }
        }
    }
    Ok(n)
}
