//! M-DUR: a duration is one i128 nanosecond count clamped to [MIN_NS, MAX_NS].
use hifitime::Duration;

pub const NPC: i128 = 3_155_760_000_000_000_000; // 36525 d * 86400 s * 1e9
pub const MIN_NS: i128 = -32768 * NPC;
pub const MAX_NS: i128 = 32768 * NPC;
pub const NS_US: i128 = 1_000;
pub const NS_MS: i128 = 1_000_000;
pub const NS_S: i128 = 1_000_000_000;
pub const NS_MIN: i128 = 60 * NS_S;
pub const NS_H: i128 = 3600 * NS_S;
pub const NS_D: i128 = 86400 * NS_S;
pub const NS_W: i128 = 7 * NS_D;

pub type Parts = (i16, u64);

#[inline]
pub fn clamp(v: i128) -> i128 {
    v.clamp(MIN_NS, MAX_NS)
}

/// Canonical parts of a (clamped) count: (v div NPC, v mod NPC), except MAX = (32767, NPC).
#[inline]
pub fn canon(v: i128) -> Parts {
    let v = clamp(v);
    if v == MAX_NS {
        return (i16::MAX, NPC as u64);
    }
    (v.div_euclid(NPC) as i16, v.rem_euclid(NPC) as u64)
}

/// Count denoted by observed parts (the convention of the anchor: ns always count forward).
#[inline]
pub fn count(p: Parts) -> i128 {
    p.0 as i128 * NPC + p.1 as i128
}

#[inline]
pub fn count_d(d: Duration) -> i128 {
    count(d.to_parts())
}

/// Is this observed parts pair in canonical form?
#[inline]
pub fn is_canonical(p: Parts) -> bool {
    (p.1 as i128) < NPC || (p.0 == i16::MAX && p.1 as i128 == NPC)
}

/// Count denoted by *raw constructor* parts (any u64 ns), clamped.
#[inline]
pub fn count_raw(c: i16, ns: u64) -> i128 {
    clamp(c as i128 * NPC + ns as i128)
}

/// Build the real Duration holding exactly this (clamped) count, through from_parts with canonical
/// parts only (the constructor path exercised by C02 separately).
#[inline]
pub fn mk(v: i128) -> Duration {
    let (c, n) = canon(v);
    Duration::from_parts(c, n)
}

/// Known finding F1: `total_nanoseconds()` reads an operand with centuries < -1 as c*NPC - ns.
#[inline]
pub fn f1_read(p: Parts) -> i128 {
    if p.0 < -1 {
        p.0 as i128 * NPC - p.1 as i128
    } else {
        count(p)
    }
}

pub fn unit_ns(u: hifitime::Unit) -> i128 {
    use hifitime::Unit::*;
    match u {
        Nanosecond => 1,
        Microsecond => NS_US,
        Millisecond => NS_MS,
        Second => NS_S,
        Minute => NS_MIN,
        Hour => NS_H,
        Day => NS_D,
        Week => NS_W,
        Century => NPC,
    }
}

pub const UNITS: [hifitime::Unit; 9] = [
    hifitime::Unit::Nanosecond,
    hifitime::Unit::Microsecond,
    hifitime::Unit::Millisecond,
    hifitime::Unit::Second,
    hifitime::Unit::Minute,
    hifitime::Unit::Hour,
    hifitime::Unit::Day,
    hifitime::Unit::Week,
    hifitime::Unit::Century,
];

pub fn fmt_parts(p: Parts) -> String {
    format!("({},{})", p.0, p.1)
}
