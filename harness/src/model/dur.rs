//! M-DUR: a duration is one i128 nanosecond count clamped to [MIN_NS, MAX_NS].
use hifitime::Duration;

pub const NPC: i128 = 3_155_760_000_000_000_000; // 36525 d * 86400 s * 1e9
pub const MIN_NS: i128 = -32768 * NPC;
pub const MAX_NS: i128 = 32768 * NPC;
pub const NS_US: i128 = 1_000;
pub const NS_MS: i128 = 1_000_000;
pub const NS_S: i128 = 1_000_000_000;
pub const NS_MIN: i128 = 60 * NS_S;
pub const NS_H: i128 = 3600 * NS_S;
pub const NS_D: i128 = 86400 * NS_S;
pub const NS_W: i128 = 7 * NS_D;

pub type Parts = (i16, u64);

#[inline]
pub fn clamp(v: i128) -> i128 {
    v.clamp(MIN_NS, MAX_NS)
}

/// Canonical parts of a (clamped) count: (v div NPC, v mod NPC), except MAX = (32767, NPC).
#[inline]
pub fn canon(v: i128) -> Parts {
    let v = clamp(v);
    if v == MAX_NS {
        return (i16::MAX, NPC as u64);
    }
    (v.div_euclid(NPC) as i16, v.rem_euclid(NPC) as u64)
}

/// Count denoted by observed parts (the convention of the anchor: ns always count forward).
#[inline]
pub fn count(p: Parts) -> i128 {
    p.0 as i128 * NPC + p.1 as i128
}

#[inline]
pub fn count_d(d: Duration) -> i128 {
    count(d.to_parts())
}

/// Is this observed parts pair in canonical form?
#[inline]
pub fn is_canonical(p: Parts) -> bool {
    (p.1 as i128) < NPC || (p.0 == i16::MAX && p.1 as i128 == NPC)
}

/// Count denoted by *raw constructor* parts (any u64 ns), clamped.
#[inline]
pub fn count_raw(c: i16, ns: u64) -> i128 {
    clamp(c as i128 * NPC + ns as i128)
}

/// Build the real Duration holding exactly this (clamped) count, through from_parts with canonical
/// parts only (the constructor path exercised by C02 separately).
#[inline]
pub fn mk(v: i128) -> Duration {
    let (c, n) = canon(v);
    if (v as u64 ^ (v >> 64) as u64).wrapping_mul(0x9E37_79B9_7F4A_7C15) >> 58 == 0 {
        pretouch_duration(v);
    }
    Duration::from_parts(c, n)
}

/// History diversity for durations (the counterpart of `props::c05::pretouch` for epochs): one count in 64, chosen by a hash
/// of the count (the same ones in every run), is preceded by read-only calls nobody judges on a *related* duration - the count
/// itself, its negation (which `==` cannot tell from it within a century), a neighbour 1 ns / one century away. The library
/// keeps no state between calls today, so this changes nothing on the unchanged tree; a memo ("the value decomposed /
/// printed / converted last") with an incomplete or `==`-compared key answers the monitored call from what the touch left.
#[cold]
fn pretouch_duration(v: i128) {
    let h = (v as u64 ^ (v >> 64) as u64).wrapping_mul(0xD6E8_FEB8_6659_FD93);
    let t = match (h >> 40) % 7 {
        0 | 1 => v,
        2 => -v,
        3 => v + 1,
        4 => v - 1,
        5 => v + NPC,
        _ => -v - 1,
    };
    if !(MIN_NS..=MAX_NS).contains(&t) {
        return;
    }
    let (c, n) = canon(t);
    let _ = crate::core::guard(move || {
        let d = Duration::from_parts(c, n);
        let a = (d.decompose(), d.to_seconds(), d.total_nanoseconds(), d.try_truncated_nanoseconds().ok(), d.to_parts(), d.signum(), d.is_negative());
        let b = (d.abs(), -d, d + Duration::ZERO, d * 1, d == d, d.cmp(&Duration::ZERO), d.floor(hifitime::Unit::Second * 1), d.round(hifitime::Unit::Day * 1));
        let f = if (h >> 50) % 4 == 0 { format!("{d}").len() } else { 0 };
        let u = (d.to_unit(hifitime::Unit::Day), d.to_unit(hifitime::Unit::Century), d.subdivision(hifitime::Unit::Hour));
        std::hint::black_box((a, b, f, u));
    });
}

/// Known finding F1: `total_nanoseconds()` reads an operand with centuries < -1 as c*NPC - ns.
#[inline]
pub fn f1_read(p: Parts) -> i128 {
    if p.0 < -1 {
        p.0 as i128 * NPC - p.1 as i128
    } else {
        count(p)
    }
}

pub fn unit_ns(u: hifitime::Unit) -> i128 {
    use hifitime::Unit::*;
    match u {
        Nanosecond => 1,
        Microsecond => NS_US,
        Millisecond => NS_MS,
        Second => NS_S,
        Minute => NS_MIN,
        Hour => NS_H,
        Day => NS_D,
        Week => NS_W,
        Century => NPC,
    }
}

pub const UNITS: [hifitime::Unit; 9] = [
    hifitime::Unit::Nanosecond,
    hifitime::Unit::Microsecond,
    hifitime::Unit::Millisecond,
    hifitime::Unit::Second,
    hifitime::Unit::Minute,
    hifitime::Unit::Hour,
    hifitime::Unit::Day,
    hifitime::Unit::Week,
    hifitime::Unit::Century,
];

pub fn fmt_parts(p: Parts) -> String {
    format!("({},{})", p.0, p.1)
}
