//! M-SCALE: an epoch (d, scale) denotes the TAI instant d + zero_TAI(scale).
use super::cal;
use super::dur::{NS_D, NS_S};
use super::{dynm, leap};
use hifitime::TimeScale;

pub const SCALES: [TimeScale; 9] = [
    TimeScale::TAI,
    TimeScale::TT,
    TimeScale::ET,
    TimeScale::TDB,
    TimeScale::UTC,
    TimeScale::GPST,
    TimeScale::GST,
    TimeScale::BDT,
    TimeScale::QZSST,
];
pub const UNIFORM: [TimeScale; 6] =
    [TimeScale::TAI, TimeScale::TT, TimeScale::GPST, TimeScale::GST, TimeScale::BDT, TimeScale::QZSST];

pub fn is_uniform(s: TimeScale) -> bool {
    UNIFORM.contains(&s)
}
pub fn is_dyn(s: TimeScale) -> bool {
    matches!(s, TimeScale::ET | TimeScale::TDB)
}

/// TAI count (ns since 1900-01-01 00:00:00 TAI) of the zero of a uniform scale, derived from the
/// statement (civil reference date in the scale itself, scale runs N s behind TAI), via M-CAL.
pub fn zero_tai_ns(s: TimeScale) -> i128 {
    match s {
        TimeScale::TAI => 0,
        // TT - TAI = 32.184 s: TT reading 0 happens at TAI -32.184 s
        TimeScale::TT => -32_184_000_000,
        TimeScale::GPST | TimeScale::QZSST => cal::days_from_1900(1980, 1, 6) as i128 * NS_D + 19 * NS_S,
        TimeScale::GST => cal::days_from_1900(1999, 8, 22) as i128 * NS_D + 19 * NS_S,
        TimeScale::BDT => cal::days_from_1900(2006, 1, 1) as i128 * NS_D + 33 * NS_S,
        _ => panic!("not a uniform scale"),
    }
}

/// Civil reference (Gregorian zero) of a scale's own count, as ns after 1900-01-01 00:00:00 *in that scale*.
pub fn greg_zero_ns(s: TimeScale) -> i128 {
    match s {
        TimeScale::TAI | TimeScale::TT | TimeScale::UTC => 0,
        TimeScale::ET | TimeScale::TDB => cal::days_from_1900(2000, 1, 1) as i128 * NS_D + NS_D / 2,
        TimeScale::GPST | TimeScale::QZSST => cal::days_from_1900(1980, 1, 6) as i128 * NS_D,
        TimeScale::GST => cal::days_from_1900(1999, 8, 22) as i128 * NS_D,
        TimeScale::BDT => cal::days_from_1900(2006, 1, 1) as i128 * NS_D,
        _ => 0,
    }
}

pub struct World {
    pub leap: Vec<(i64, i64)>,
    pub dynp: dynm::Params,
}

impl World {
    pub fn new(dynp: dynm::Params) -> Self {
        World { leap: leap::table(), dynp }
    }

    /// TAI count of the instant denoted by count `d` in `scale`. Exact for uniform scales and UTC;
    /// for ET/TDB the model value (tolerance applies).
    pub fn to_tai(&self, d: i128, s: TimeScale) -> i128 {
        match s {
            TimeScale::UTC => leap::tai_from_utc(&self.leap, d),
            TimeScale::ET => dynm::tai_from_et(&self.dynp, d),
            TimeScale::TDB => dynm::tai_from_tdb(d),
            _ => d + zero_tai_ns(s),
        }
    }

    /// Reading in `scale` of the TAI instant `t`. None for TAI instants without a UTC pre-image.
    pub fn from_tai(&self, t: i128, s: TimeScale) -> Option<i128> {
        match s {
            TimeScale::UTC => leap::utc_from_tai(&self.leap, t),
            TimeScale::ET => Some(dynm::et_from_tai(&self.dynp, t)),
            TimeScale::TDB => Some(dynm::tdb_from_tai(t)),
            _ => Some(t - zero_tai_ns(s)),
        }
    }

    /// With known finding F12b applied (TAI->UTC in the UTC frame).
    pub fn from_tai_f12b(&self, t: i128, s: TimeScale) -> i128 {
        match s {
            TimeScale::UTC => leap::f12b_utc_from_tai(&self.leap, t),
            _ => self.from_tai(t, s).unwrap(),
        }
    }

    /// Is the TAI instant within `margin_ns` of a window where TAI->UTC has no pre-image or where
    /// F12b changes the answer (the dAT seconds after each entry's UTC-frame timestamp read as TAI)?
    pub fn in_f12b_window(&self, t: i128) -> bool {
        for &(ts, o) in &self.leap {
            let a = ts as i128 * NS_S;
            if t >= a && t < a + o as i128 * NS_S {
                return true;
            }
        }
        false
    }
}

impl World {
    /// Within `margin` ns of a discontinuity of the (correct or F12b-deformed) TAI->UTC map: there a
    /// tolerance on the TAI instant (ET/TDB operands) makes the UTC reading ambiguous by a whole second.
    pub fn near_utc_discontinuity(&self, t: i128, margin: i128) -> bool {
        for &(ts, o) in &self.leap {
            let a = ts as i128 * NS_S;
            for edge in [a, a + (o as i128 - 1) * NS_S, a + o as i128 * NS_S] {
                if (t - edge).abs() <= margin {
                    return true;
                }
            }
        }
        false
    }
}

pub fn scale_idx(s: TimeScale) -> u64 {
    u8::from(s) as u64
}
