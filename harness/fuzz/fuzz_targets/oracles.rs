#![no_main]
//! Coverage-guided driver for every property: the input feeds the PRNG of the property's random workload
//! (hfverif::fuzz). The property is chosen by the environment variable VERIF_FUZZ_PROP. An outcome an oracle rejects
//! (and no listed known finding explains) aborts the process, which makes libFuzzer keep the input as a crash artifact;
//! `./check <ID> --replay <artifact>` re-judges it verbosely.
use libfuzzer_sys::fuzz_target;
use std::sync::OnceLock;

static PROP: OnceLock<String> = OnceLock::new();

fuzz_target!(|data: &[u8]| {
    let prop = PROP.get_or_init(|| std::env::var("VERIF_FUZZ_PROP").unwrap_or_else(|_| "C01".into()));
    let out = hfverif::fuzz::one_input(prop, data);
    if !out.violations.is_empty() {
        for (sig, det) in &out.violations {
            eprintln!("ORACLE-VIOLATION property={} [{}] {}", prop, sig, det);
        }
        std::process::abort();
    }
});
