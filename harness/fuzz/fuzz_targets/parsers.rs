#![no_main]
//! Coverage-guided driver for C13: the input is split at the first '\n' into (format string, text); every parsing
//! entry point is called on the text (and on the pair). Any panic / overflow / abort is a crash = C13 violation.
use hifitime::efmt::Format;
use hifitime::{Duration, Epoch, MonthName, TimeScale, Weekday};
use libfuzzer_sys::fuzz_target;
use std::str::FromStr;

fuzz_target!(|data: &[u8]| {
    let s = match std::str::from_utf8(data) {
        Ok(s) => s,
        Err(_) => return,
    };
    let (fmt, text) = match s.split_once('\n') {
        Some((a, b)) => (a, b),
        None => ("%Y-%m-%dT%H:%M:%S.%f %T", s),
    };
    let _ = Epoch::from_str(text);
    let _ = Epoch::from_gregorian_str(text);
    let _ = Duration::from_str(text);
    let _ = TimeScale::from_str(text);
    let _ = Weekday::from_str(text);
    let _ = MonthName::from_str(text);
    let _ = Format::from_str(text);
    let _ = Epoch::from_format_str(text, fmt);
    if let Ok(f) = Format::from_str(fmt) {
        let _ = f.parse(text);
        let _ = Epoch::from_str_with_format(text, f);
    }
});
